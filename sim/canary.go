package main

// A process-state canary: a fixed battery of pure library calls whose results must be the same
// at the end of every simulated run as they were when the process started. go-cty promises
// (C20) that no call or mutation of caller-visible Go data changes what any other value reports;
// a change here means that a run left state behind in the library (a polluted package-level
// variable, a shared sentinel object handed to the caller), which also makes every later run in
// this process meaningless - so the worker reports it against the run that caused it and exits.

import (
	"strings"

	"github.com/zclconf/go-cty/cty"
	"github.com/zclconf/go-cty/cty/convert"
	"github.com/zclconf/go-cty/cty/function/stdlib"
	ctyjson "github.com/zclconf/go-cty/cty/json"
	"github.com/zclconf/go-cty/cty/msgpack"
)

var canaryBaseline string

func canaryNow() (s string) {
	defer func() {
		if r := recover(); r != nil {
			s += "|panic:" + panicClass(r)
		}
	}()
	var b strings.Builder
	add := func(x string) { b.WriteString(x); b.WriteString("|") }
	v := cty.ObjectVal(map[string]cty.Value{
		"a": cty.TupleVal([]cty.Value{cty.StringVal("x"), cty.NumberIntVal(1), cty.NullVal(cty.Bool)}),
		"b": cty.SetVal([]cty.Value{cty.StringVal("s"), cty.StringVal("t")}),
		"c": cty.MapVal(map[string]cty.Value{"k": cty.UnknownVal(cty.Number)}),
	})
	add(fp(v))
	u, m := v.UnmarkDeep()
	add(fp(u) + marksKey(m))
	_, pvm := v.UnmarkDeepWithPaths()
	add(string(rune('0' + len(pvm))))
	_, m1 := cty.StringVal("plain").Unmark()
	add(marksKey(m1) + marksKey(cty.StringVal("plain").Marks()))
	add(fp(cty.ListVal([]cty.Value{cty.Zero, cty.NumberIntVal(2)})))
	if r, err := stdlib.UpperFunc.Call([]cty.Value{cty.StringVal("a")}); err == nil {
		add(fp(r))
	} else {
		add("err")
	}
	if r, err := stdlib.SetUnionFunc.Call([]cty.Value{cty.SetVal([]cty.Value{cty.True}), cty.SetVal([]cty.Value{cty.False})}); err == nil {
		add(fp(r))
	} else {
		add("err")
	}
	if r, err := convert.Convert(cty.NumberIntVal(1), cty.String); err == nil {
		add(fp(r))
	} else {
		add("err")
	}
	for _, pv := range []cty.Value{cty.True, cty.False, cty.Zero, cty.DynamicVal, cty.EmptyObjectVal, cty.EmptyTupleVal, cty.PositiveInfinity, cty.NegativeInfinity, cty.NilVal} {
		if pv == cty.NilVal {
			add("nil")
			continue
		}
		add(fp(pv))
	}
	for _, pt := range []cty.Type{cty.String, cty.Number, cty.Bool, cty.DynamicPseudoType, cty.EmptyObject, cty.EmptyTuple, cty.List(cty.String)} {
		add(fpType(pt) + pt.FriendlyName())
	}
	if js, err := ctyjson.Marshal(u, u.Type()); err == nil {
		add(string(js))
	} else {
		add("err")
	}
	// the decoders on the same bytes as before (what a decoder remembers about a document must not change what the
	// next reading of the same document gives): dynamic-value wrappers whose type descriptions carry optional
	// attributes, an implied type, a type description
	for i, doc := range []string{`{"type":["object",{"a":"string","b":"number"},["b"]],"value":null}`, `{"type":["list",["object",{"a":"string"},["a"]]],"value":[]}`} {
		if r, err := ctyjson.Unmarshal([]byte(doc), cty.DynamicPseudoType); err == nil {
			add(fp(r))
		} else {
			add("err")
		}
		ty := c17WrapperTypes[i]
		mp := append(append([]byte{0x92}, mpHeader("bin", len(ty), 0)...), ty...)
		mp = append(mp, c17WrapperMsgpackValues[i]...)
		if r, err := msgpack.Unmarshal(mp, cty.DynamicPseudoType); err == nil {
			add(fp(r))
		} else {
			add("err")
		}
		if ity, err := msgpack.ImpliedType(mp); err == nil {
			add(fpType(ity))
		} else {
			add("err")
		}
		if uty, err := ctyjson.UnmarshalType([]byte(ty)); err == nil {
			add(fpType(uty))
		} else {
			add("err")
		}
	}
	add(fp(cty.NumberIntVal(3).Equals(cty.MustParseNumberVal("3.0"))))
	add(cty.UnknownVal(cty.String).RefineNotNull().Range().StringPrefix())
	return b.String()
}

// canaryCheck is called at the end of every execution.
func canaryCheck(c *Ctx) {
	if canaryBaseline == "" {
		return
	}
	if now := canaryNow(); now != canaryBaseline {
		c.Fail("C20", "process-state-changed", "process-state-changed",
			"after this run a fixed battery of pure library calls gives other results than when the process started: the run left state behind in the library\nat process start: %s\nnow:              %s", clip(canaryBaseline), clip(now))
	}
}
