package main

import "runtime"

func runtimeStack(buf []byte) int { return runtime.Stack(buf, false) }
