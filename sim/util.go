package main

import (
	"runtime"
	"syscall"
)

func runtimeStack(buf []byte) int { return runtime.Stack(buf, false) }

func setRlimitAS(n uint64) {
	lim := syscall.Rlimit{Cur: n, Max: n}
	_ = syscall.Setrlimit(syscall.RLIMIT_AS, &lim)
}
