package main

import (
	"runtime"
	"syscall"
)

func runtimeStack(buf []byte) int { return runtime.Stack(buf, false) }

func setRlimitAS(n uint64) {
	lim := syscall.Rlimit{Cur: n, Max: n}
	_ = syscall.Setrlimit(syscall.RLIMIT_AS, &lim)
}

// catch runs f and returns what it panicked with, or nil.
func catch(f func()) (pan interface{}) {
	defer func() { pan = recover() }()
	f()
	return nil
}
