package main

// C10 — the function-call protocol enforces every declared parameter contract.
// DESIGN.md §5-C10. The simulator plays the function author: seeded Spec configurations with
// fault-injecting Type / Impl callbacks (error, panic, non-conforming result, unknown, marked,
// null) x argument lists of every length mixing conforming, non-conforming, null, unknown,
// dynamic and deeply marked values. Spies record the callback history; a protocol model computes,
// from the spec and the argument descriptions only, the set of acceptable outcomes.

import (
	"errors"
	"fmt"
	"sort"
	"strings"

	"github.com/zclconf/go-cty/cty"
	"github.com/zclconf/go-cty/cty/function"
)

type c10Param struct {
	T                              *TDesc
	Null, Unknown, Dynamic, Marked bool
}

func (p c10Param) String() string {
	f := ""
	for i, b := range []bool{p.Null, p.Unknown, p.Dynamic, p.Marked} {
		if b {
			f += string("NUDM"[i])
		}
	}
	return fmt.Sprintf("%s/%s", p.T, f)
}

const (
	tyStatic = iota
	tyFirstArg
	tyDynamic
	tyError
	tyPanic
	tyPartDyn // a structural type with the placeholder nested inside: only part of the result type is checked
	numTyBeh
)

const (
	imValue = iota
	imMarked
	imUnknown
	imWrongType
	imError
	imPanic
	imNull
	numImBeh
)

var tyBehNames = []string{"static", "type-of-first-argument", "dynamic", "returns-error", "panics", "partly-dynamic"}

// checked return types that are only partly known
var c10PartDyn = []*TDesc{
	{K: KObject, Names: []string{"data", "id"}, Elems: []*TDesc{tDynamic, tString}},
	{K: KTuple, Elems: []*TDesc{tString, tDynamic}},
	{K: KMap, Elem: tDynamic}, {K: KList, Elem: tDynamic}, {K: KSet, Elem: tDynamic},
	{K: KObject, Names: []string{"a"}, Elems: []*TDesc{tDynamic}},
	{K: KList, Elem: &TDesc{K: KObject, Names: []string{"data", "n"}, Elems: []*TDesc{tDynamic, tNumber}}},
	{K: KTuple, Elems: []*TDesc{{K: KMap, Elem: tDynamic}, tBool}},
}
var imBehNames = []string{"conforming-value", "marked-value", "unknown", "wrong-type", "returns-error", "panics", "null"}

type c10Spec struct {
	params     []c10Param
	varP       *c10Param
	tyBeh      int
	retT       *TDesc // static return type
	imBeh      int
	refine     bool
	refineKind int // 0: not null only; k+1: also a bound for results of kind k
}

var c10ParamTypes = []*TDesc{
	tString, tNumber, tBool, tDynamic, tString, tDynamic,
	{K: KList, Elem: tString}, {K: KList, Elem: tDynamic}, {K: KMap, Elem: tDynamic},
	{K: KObject, Names: []string{"a"}, Elems: []*TDesc{tString}},
	{K: KObject, Names: []string{"a", "b"}, Elems: []*TDesc{tDynamic, tNumber}},
	{K: KTuple, Elems: []*TDesc{tNumber, tDynamic}}, {K: KSet, Elem: tString},
}

var c10Concrete = []*TDesc{tString, tNumber, tBool, {K: KList, Elem: tString}, {K: KList, Elem: tNumber}, {K: KMap, Elem: tNumber},
	{K: KObject, Names: []string{"a"}, Elems: []*TDesc{tString}}, {K: KObject, Names: []string{"a", "b"}, Elems: []*TDesc{tBool, tNumber}},
	{K: KTuple, Elems: []*TDesc{tNumber, tString}}, {K: KSet, Elem: tString}, {K: KTuple}, {K: KObject}}

// conformsDesc is the checker's own statement of type conformance (the dynamic placeholder in
// the constraint matches anything; otherwise the shapes must agree exactly).
func conformsDesc(arg, want *TDesc) bool {
	if want.K == KDynamic {
		return true
	}
	if arg.K != want.K {
		return false
	}
	switch arg.K {
	case KList, KSet, KMap:
		return conformsDesc(arg.Elem, want.Elem)
	case KTuple:
		if len(arg.Elems) != len(want.Elems) {
			return false
		}
		for i := range arg.Elems {
			if !conformsDesc(arg.Elems[i], want.Elems[i]) {
				return false
			}
		}
		return true
	case KObject:
		if len(arg.Names) != len(want.Names) {
			return false
		}
		for i := range arg.Names {
			if arg.Names[i] != want.Names[i] || !conformsDesc(arg.Elems[i], want.Elems[i]) {
				return false
			}
		}
		return true
	case KCapsule:
		return arg.Cap == want.Cap
	}
	return true
}

// concretize replaces dynamic placeholders in a constraint by drawn concrete types.
func concretize(c *Ctx, t *TDesc) *TDesc {
	switch t.K {
	case KDynamic:
		return c10Concrete[c.G(len(c10Concrete))]
	case KList, KSet, KMap:
		e := concretize(c, t.Elem)
		if t.K == KSet && e.K != KString && e.K != KNumber {
			e = tString
		}
		return &TDesc{K: t.K, Elem: e}
	case KTuple, KObject:
		n := &TDesc{K: t.K, Names: t.Names}
		for _, e := range t.Elems {
			n.Elems = append(n.Elems, concretize(c, e))
		}
		return n
	}
	return t
}

func c10GenParam(c *Ctx) c10Param {
	p := c10Param{T: c10ParamTypes[c.G(len(c10ParamTypes))]}
	f := c.G(16)
	p.Null, p.Unknown, p.Dynamic, p.Marked = f&1 != 0, f&2 != 0, f&4 != 0, f&8 != 0
	return p
}

const (
	akConform = iota
	akConformMarked
	akNonConform
	akNull
	akNullDynamic
	akUnknown
	akDynamicVal
	akNestedUnknown
	numArgKinds
)

var argKindNames = []string{"conforming", "conforming-deeply-marked", "non-conforming", "null", "null-of-dynamic", "unknown", "DynamicVal", "nested-unknown"}

func c10GenArg(c *Ctx, p c10Param) (*VDesc, int) {
	kind := c.G(numArgKinds)
	if c.G(3) == 0 {
		kind = akConform
	}
	ct := concretize(c, p.T)
	o := GenOpts{MaxLen: 2}
	var d *VDesc
	switch kind {
	case akConform:
		d = genKnown(c, ct, o)
	case akConformMarked:
		o.Marks = true
		d = genKnown(c, ct, o)
		forceDeepMark(c, d)
	case akNonConform:
		var wrong *TDesc
		for k := 0; k < len(c10Concrete); k++ {
			w := c10Concrete[(c.G(len(c10Concrete))+k)%len(c10Concrete)]
			if !conformsDesc(w, p.T) {
				wrong = w
				break
			}
		}
		if near := c10NearMiss(c, ct); near != nil && !conformsDesc(near, p.T) && c.G(3) == 0 {
			// a near miss: the constraint's own shape with the placeholder where the constraint names a type - the type
			// of an empty collection nobody has decided the members of, of an unknown, of a null
			switch {
			case (near.K == KList || near.K == KSet || near.K == KMap) && near.Elem.K == KDynamic && c.G(2) == 0:
				d = &VDesc{T: near} // known and empty
			default:
				d = &VDesc{T: near, St: StUnknown}
			}
			c.Probe("c10.near-miss-argument")
		} else if wrong == nil { // everything conforms to a dynamic constraint
			d = genKnown(c, ct, o)
			kind = akConform
		} else {
			d = genKnown(c, wrong, o)
			if c.G(4) == 0 {
				d = &VDesc{T: wrong, St: StUnknown}
			}
		}
	case akNull:
		d = &VDesc{T: ct, St: StNull}
	case akNullDynamic:
		d = &VDesc{T: tDynamic, St: StNull}
	case akUnknown:
		d = &VDesc{T: ct, St: StUnknown}
		if c.G(2) == 1 {
			d.Ref = genRef(c, ct)
			d.normalizeCollapsed()
		}
	case akDynamicVal:
		d = &VDesc{T: tDynamic, St: StUnknown}
	case akNestedUnknown:
		o.Unknown, o.Null = true, true
		d = genKnown(c, ct, o)
	}
	if c.G(5) == 4 {
		m := markPool[c.G(len(markPool))]
		has := false
		for _, x := range d.Marks {
			has = has || x == m
		}
		if !has {
			d.Marks = append(d.Marks, m)
			sort.Strings(d.Marks)
		}
	}
	stripSetMarks(d)
	return d, kind
}

// genKnown generates a value description that is known at its top level.
func genKnown(c *Ctx, t *TDesc, o GenOpts) *VDesc {
	top := o
	top.Unknown, top.Null = false, false
	d := genValue(c, t, 2, top)
	if o.Unknown || o.Null {
		// members may be unknown / null
		for i, e := range d.Elems {
			if c.G(2) == 0 {
				if d.T.K == KSet {
					continue
				}
				ne := &VDesc{T: e.T, St: StUnknown}
				if c.G(3) == 0 {
					ne.St = StNull
				}
				d.Elems[i] = ne
			}
		}
	}
	return d
}

// forceDeepMark puts a mark on some nested member (not inside sets, which cannot hold marks).
func forceDeepMark(c *Ctx, d *VDesc) {
	cur := d
	for depth := 0; depth < 3; depth++ {
		if len(cur.Elems) == 0 || cur.T.K == KSet || cur.St != StKnown {
			break
		}
		cur = cur.Elems[c.G(len(cur.Elems))]
	}
	m := markPool[c.G(len(markPool))]
	for _, x := range cur.Marks {
		if x == m {
			return
		}
	}
	cur.Marks = append(cur.Marks, m)
	sort.Strings(cur.Marks)
}

func cloneDesc(v *VDesc) *VDesc {
	n := *v
	n.Marks = append([]string(nil), v.Marks...)
	n.Elems = make([]*VDesc, len(v.Elems))
	for i, e := range v.Elems {
		n.Elems[i] = cloneDesc(e)
	}
	return &n
}

type c10Event struct {
	kind    string // "type" | "impl"
	args    []string
	nargs   int
	retType cty.Type
}

type c10Spy struct {
	events  []c10Event
	typeErr error
	implErr error
	typeRet cty.Type
	implRet cty.Value
}

func fpArgs(args []cty.Value) []string {
	out := make([]string, len(args))
	for i, a := range args {
		out[i] = fp(a)
	}
	return out
}

func simC10Protocol(c *Ctx) {
	// ---- the specification
	sp := &c10Spec{}
	np := c.G(4)
	for i := 0; i < np; i++ {
		sp.params = append(sp.params, c10GenParam(c))
	}
	if c.G(2) == 1 {
		p := c10GenParam(c)
		sp.varP = &p
	}
	sp.tyBeh = c.G(numTyBeh)
	if c.G(3) != 0 {
		sp.tyBeh = []int{tyStatic, tyFirstArg, tyDynamic, tyPartDyn}[c.G(4)]
	}
	sp.retT = c10Concrete[c.G(len(c10Concrete)-2)]
	if sp.tyBeh == tyPartDyn {
		sp.retT = c10PartDyn[c.G(len(c10PartDyn))]
	}
	wrongVariant := c.G(4)
	sp.imBeh = c.G(numImBeh)
	if c.G(3) == 0 {
		sp.imBeh = imValue
	}
	sp.refine = c.G(3) == 2
	richRefine := c.G(2) == 0
	panicKind := c.G(numPanicKinds)
	concreteUnknown := c.G(2) == 0
	var ps []string
	for _, p := range sp.params {
		ps = append(ps, p.String())
	}
	vs := "-"
	if sp.varP != nil {
		vs = sp.varP.String()
	}
	c.Event("spec params=[%s] var=%s type=%s(%s) impl=%s refine=%t", strings.Join(ps, " "), vs, tyBehNames[sp.tyBeh], sp.retT, imBehNames[sp.imBeh], sp.refine)
	c.AddShape(fmt.Sprintf("np=%d var=%t ty=%d im=%d rf=%t", np, sp.varP != nil, sp.tyBeh, sp.imBeh, sp.refine))
	switch sp.tyBeh {
	case tyError:
		c.Fired("cb.error.type")
	case tyPanic:
		c.Fired("cb.panic.type")
		c.Fired("cb.panic.kind:" + panicKindNames[panicKind])
	}
	if sp.imBeh == imPanic {
		c.Fired("cb.panic.kind:" + panicKindNames[panicKind])
	}
	switch sp.imBeh {
	case imError:
		c.Fired("cb.error")
	case imPanic:
		c.Fired("cb.panic")
	case imWrongType:
		c.Fired("cb.badtype")
	case imUnknown:
		c.Fired("cb.unknown")
	case imMarked:
		c.Fired("cb.marked")
	case imNull:
		c.Fired("cb.null")
	}

	spy := &c10Spy{}
	mkParam := func(p c10Param, name string) function.Parameter {
		return function.Parameter{Name: name, Type: p.T.Cty(), AllowNull: p.Null, AllowUnknown: p.Unknown, AllowDynamicType: p.Dynamic, AllowMarked: p.Marked}
	}
	spec := &function.Spec{}
	for i, p := range sp.params {
		spec.Params = append(spec.Params, mkParam(p, fmt.Sprintf("p%d", i)))
	}
	if sp.varP != nil {
		vp := mkParam(*sp.varP, "rest")
		spec.VarParam = &vp
	}
	spec.Type = func(args []cty.Value) (cty.Type, error) {
		spy.events = append(spy.events, c10Event{kind: "type", args: fpArgs(args), nargs: len(args)})
		switch sp.tyBeh {
		case tyError:
			spy.typeErr = errors.New("injected type-check failure")
			return cty.NilType, spy.typeErr
		case tyPanic:
			injectedPanic(panicKind, "injected type-check panic", args)
		case tyDynamic:
			spy.typeRet = cty.DynamicPseudoType
		case tyFirstArg:
			spy.typeRet = sp.retT.Cty()
			if len(args) > 0 {
				spy.typeRet = args[0].Type()
			}
		default:
			spy.typeRet = sp.retT.Cty()
		}
		return spy.typeRet, nil
	}
	wrongFor := func(t cty.Type) cty.Value {
		if t == cty.DynamicPseudoType {
			return cty.NilVal
		}
		if t == cty.String {
			return cty.NumberIntVal(7)
		}
		// a value that agrees with the checked type wherever that is the placeholder and breaks one of its concrete parts
		switch {
		case wrongVariant == 0:
		case t.IsObjectType() && len(t.AttributeTypes()) > 0:
			m := map[string]cty.Value{}
			names := sortedAttrNames(t)
			for _, n := range names {
				m[n] = knownOfType(t.AttributeType(n))
			}
			last := names[len(names)-1]
			switch wrongVariant {
			case 1:
				delete(m, last) // an attribute is missing
			case 2:
				m["surplus"] = cty.True // one attribute too many
			default:
				m[last] = wrongOf(m[last]) // a concrete attribute has another type (a placeholder attribute stays conforming)
				if t.AttributeType(last) == cty.DynamicPseudoType {
					delete(m, last)
				}
			}
			return cty.ObjectVal(m)
		case t.IsTupleType() && len(t.TupleElementTypes()) > 0:
			var vs []cty.Value
			for _, et := range t.TupleElementTypes() {
				vs = append(vs, knownOfType(et))
			}
			switch wrongVariant {
			case 1:
				vs = vs[:len(vs)-1]
			case 2:
				vs = append(vs, cty.True)
			default:
				ets := t.TupleElementTypes()
				bad := false
				for i, et := range ets {
					if et != cty.DynamicPseudoType {
						vs[i], bad = wrongOf(vs[i]), true
						break
					}
				}
				if !bad {
					vs = vs[:len(vs)-1]
				}
			}
			return cty.TupleVal(vs)
		case t.IsListType():
			return cty.SetVal([]cty.Value{cty.StringVal("a set, not a list")})
		case t.IsMapType():
			return cty.ObjectVal(map[string]cty.Value{"k": cty.StringVal("an object, not a map")})
		case t.IsSetType():
			return cty.ListVal([]cty.Value{cty.StringVal("a list, not a set")})
		}
		return cty.StringVal("wrong type")
	}
	valueOf := func(t cty.Type) cty.Value {
		if t == cty.DynamicPseudoType {
			return cty.StringVal("dyn result")
		}
		return knownOfType(t)
	}
	spec.Impl = func(args []cty.Value, retType cty.Type) (cty.Value, error) {
		spy.events = append(spy.events, c10Event{kind: "impl", args: fpArgs(args), nargs: len(args), retType: retType})
		switch sp.imBeh {
		case imError:
			spy.implErr = errors.New("injected implementation failure")
			return cty.NilVal, spy.implErr
		case imPanic:
			injectedPanic(panicKind, "injected implementation panic", args)
		case imUnknown:
			spy.implRet = cty.UnknownVal(retType)
			if concreteUnknown && retType.HasDynamicTypes() {
				// the implementation settles the type the type check left open, but not the value
				spy.implRet = cty.UnknownVal(valueOf(retType).Type())
			}
		case imMarked:
			spy.implRet = valueOf(retType).Mark("implmark")
		case imNull:
			spy.implRet = cty.NullVal(retType)
		case imWrongType:
			spy.implRet = wrongFor(retType)
			if spy.implRet == cty.NilVal {
				spy.implRet = valueOf(retType)
			}
		default:
			spy.implRet = valueOf(retType)
		}
		return spy.implRet, nil
	}
	// what the author declares about every result: not null; for a statically known number / string / collection
	// return type also a bound that his own results satisfy (42, "result", one member)
	sp.refineKind = 0
	if sp.refine && sp.tyBeh == tyStatic && richRefine {
		switch sp.retT.K {
		case KNumber, KString, KList, KMap, KSet:
			sp.refineKind = int(sp.retT.K) + 1
		}
	}
	if sp.refine {
		spec.RefineResult = func(b *cty.RefinementBuilder) *cty.RefinementBuilder {
			b = b.NotNull()
			switch Kind(sp.refineKind - 1) {
			case KNumber:
				if sp.refineKind > 0 {
					b = b.NumberRangeLowerBound(cty.NumberIntVal(0), true)
				}
			case KString:
				b = b.StringPrefixFull("res")
			case KList, KMap, KSet:
				b = b.CollectionLengthLowerBound(1)
			}
			return b
		}
	}
	fn := function.New(spec)
	c.API("function.New")

	// ---- calls
	nCalls := 4 + c.G(12)
	for call := 0; call < nCalls; call++ {
		// argument list: every length around the arity
		nargs := np + c.G(4) - 1
		if nargs < 0 {
			nargs = 0
		}
		if c.G(3) != 0 {
			nargs = np
			if sp.varP != nil {
				nargs = np + c.G(3)
			}
		}
		if sp.varP != nil && c.G(25) == 0 {
			// a long variadic tail: whatever is kept per argument in fixed-width storage runs out somewhere
			nargs = np + []int{30, 62, 63, 64, 65, 66, 130, 260}[c.G(8)]
			c.Probe("c10.long-argument-list")
		}
		var descs []*VDesc
		var kinds []string
		for i := 0; i < nargs; i++ {
			var p c10Param
			switch {
			case i < np:
				p = sp.params[i]
			case sp.varP != nil:
				p = *sp.varP
			default:
				p = c10Param{T: tString}
			}
			d, k := c10GenArg(c, p)
			descs = append(descs, d)
			kinds = append(kinds, argKindNames[k])
		}
		entry := c.G(6)
		c.AddShape(strings.Join(kinds, ","))
		c10OneCall(c, sp, fn, spy, descs, kinds, entry, call)
	}
	c.NonTrivial()
}

// wrongOf returns a known value of another type than v's.
func wrongOf(v cty.Value) cty.Value {
	if v.Type() == cty.String {
		return cty.NumberIntVal(7)
	}
	return cty.StringVal("wrong type")
}

// knownOfType builds some known non-null value of a concrete type.
func knownOfType(t cty.Type) cty.Value {
	switch {
	case t == cty.String:
		return cty.StringVal("result")
	case t == cty.Number:
		return cty.NumberIntVal(42)
	case t == cty.Bool:
		return cty.True
	case t.IsListType():
		if t.ElementType() == cty.DynamicPseudoType {
			return cty.ListValEmpty(cty.DynamicPseudoType)
		}
		return cty.ListVal([]cty.Value{knownOfType(t.ElementType())})
	case t.IsSetType():
		if t.ElementType() == cty.DynamicPseudoType {
			return cty.SetValEmpty(cty.DynamicPseudoType)
		}
		return cty.SetVal([]cty.Value{knownOfType(t.ElementType())})
	case t.IsMapType():
		if t.ElementType() == cty.DynamicPseudoType {
			return cty.MapValEmpty(cty.DynamicPseudoType)
		}
		return cty.MapVal(map[string]cty.Value{"k": knownOfType(t.ElementType())})
	case t.IsTupleType():
		var vs []cty.Value
		for _, et := range t.TupleElementTypes() {
			vs = append(vs, knownOfType(et))
		}
		return cty.TupleVal(vs)
	case t.IsObjectType():
		m := map[string]cty.Value{}
		for n, at := range t.AttributeTypes() {
			m[n] = knownOfType(at)
		}
		return cty.ObjectVal(m)
	case t == cty.DynamicPseudoType:
		return cty.StringVal("dyn")
	}
	return cty.NullVal(t)
}

func c10OneCall(c *Ctx, sp *c10Spec, fn function.Function, spy *c10Spy, descs []*VDesc, kinds []string, entry int, call int) {
	np := len(sp.params)
	nargs := len(descs)
	args := make([]cty.Value, nargs)
	for i, d := range descs {
		args[i] = d.Build()
	}
	// ---- the model, from the spec and the descriptions only
	arityOK := nargs == np
	if sp.varP != nil {
		arityOK = nargs >= np
	}
	paramOf := func(i int) c10Param {
		if i < np {
			return sp.params[i]
		}
		return *sp.varP
	}
	var offences []int
	offKind := map[int]string{}
	dyn := false
	unknownShort := false
	required := map[string]bool{}
	allMarks := map[string]bool{}
	var expArgs []string
	typesOnly := entry == 4 // ReturnType: only the types matter, every argument is an unknown of its type
	if arityOK {
		for i, d := range descs {
			p := paramOf(i)
			dd := d
			if typesOnly {
				dd = &VDesc{T: d.T, St: StUnknown}
			}
			dd.AllMarks(allMarks)
			if !p.Marked {
				dd.AllMarks(required)
			}
			switch {
			case dd.St == StNull && !p.Null:
				offences = append(offences, i)
				offKind[i] = "null"
			case dd.T.K == KDynamic:
				if !p.Dynamic {
					dyn = true
				}
			case !conformsDesc(dd.T, p.T):
				offences = append(offences, i)
				offKind[i] = "type"
			}
			if dd.St == StUnknown && !p.Unknown {
				unknownShort = true
			}
			e := dd
			if !p.Marked {
				e = cloneDesc(dd)
				e.stripMarksDeep()
			}
			expArgs = append(expArgs, fp(e.Build()))
		}
	}
	var argStr []string
	for i, d := range descs {
		argStr = append(argStr, kinds[i]+":"+d.String())
	}
	entryNames := []string{"Call", "Proxy", "Unpredictable.Call", "WithNewDescriptions.Call", "ReturnType", "ReturnTypeForValues"}
	c.Event("call %d via %s args=[%s]", call, entryNames[entry], strings.Join(argStr, " | "))
	c.API("Function." + entryNames[entry])
	for _, k := range kinds {
		c.Probe("c10.arg." + k)
	}
	if nargs > np && sp.varP != nil {
		c.Probe("c10.variadic-tail")
	}

	// ---- the call
	spy.events, spy.typeErr, spy.implErr, spy.typeRet, spy.implRet = nil, nil, nil, cty.NilType, cty.NilVal
	var res cty.Value
	var resT cty.Type
	var err error
	var escaped interface{}
	unpredictable := false
	func() {
		defer func() { escaped = recover() }()
		switch entry {
		case 0:
			res, err = fn.Call(args)
		case 1:
			res, err = fn.Proxy()(args...)
		case 2:
			unpredictable = true
			res, err = function.Unpredictable(fn).Call(args)
		case 3:
			dn := np
			if sp.varP != nil && call%2 == 0 {
				dn++
			}
			res, err = fn.WithNewDescriptions("d", make([]string, dn)).Call(args)
		case 4:
			tys := make([]cty.Type, nargs)
			for i, d := range descs {
				tys[i] = d.T.Cty()
			}
			resT, err = fn.ReturnType(tys)
		case 5:
			resT, err = fn.ReturnTypeForValues(args)
		}
	}()
	typeOnlyEntry := entry >= 4
	fail := func(class, sig, f string, a ...interface{}) {
		var ev []string
		for _, e := range spy.events {
			ev = append(ev, e.kind)
		}
		c.Fail("C10", class, sig, "%s\nspec: see trace; call via %s with arguments [%s]\ncallback history: %v; error: %v", fmt.Sprintf(f, a...), entryNames[entry], strings.Join(argStr, " | "), ev, err)
	}
	// ---- history: at most one type event, then at most one impl event
	var typeEv, implEv *c10Event
	for i := range spy.events {
		e := &spy.events[i]
		switch e.kind {
		case "type":
			if typeEv != nil || implEv != nil {
				fail("callback-order", "order:type-repeated", "the type-check callback ran twice or after the implementation")
			}
			typeEv = e
		case "impl":
			if implEv != nil {
				fail("callback-order", "order:impl-repeated", "the implementation callback ran twice")
			}
			implEv = e
		}
	}
	if escaped != nil {
		// the only documented escaping panic is a RefineResult that contradicts the result (a null
		// result under NotNull)
		if sp.refine && implEv != nil && sp.imBeh == imNull {
			c.Probe("c10.wrong-refinement-panic")
			return
		}
		fail("escaped-panic", "escaped-panic", "a panic escaped: %v", escaped)
	}
	if implEv != nil {
		if typeOnlyEntry {
			fail("impl-ran", "impl-ran:return-type", "the implementation ran during a return-type query")
		}
		if typeEv == nil || spy.typeErr != nil || sp.tyBeh == tyPanic {
			fail("callback-order", "order:impl-without-type", "the implementation ran although the type-check callback did not accept the arguments")
		}
		if !arityOK || len(offences) > 0 || dyn || unknownShort {
			why := "arity"
			switch {
			case len(offences) > 0:
				why = fmt.Sprintf("argument %d violates the %s contract", offences[0], offKind[offences[0]])
			case dyn:
				why = "a dynamically-typed argument is not allowed"
			case unknownShort:
				why = "an unknown argument is not allowed"
			}
			sig := "impl-ran:" + why
			if len(offences) > 0 {
				sig = "impl-ran:" + offKind[offences[0]]
				if offences[0] >= np {
					sig += ":variadic"
				}
			}
			fail("impl-ran", sig, "the implementation ran although %s", why)
		}
		if strings.Join(implEv.args, "\x00") != strings.Join(expArgs, "\x00") {
			fail("impl-args", "impl-args"+marksSig(implEv.args, expArgs), "the implementation received arguments other than the contract prescribes (marks removed at every depth unless allowed, nothing else changed)\nreceived: %v\nexpected: %v", clipAll(implEv.args), clipAll(expArgs))
		}
		if strings.Join(implEv.args, "\x00") != strings.Join(typeEv.args, "\x00") {
			fail("callback-order", "order:args-differ", "the implementation received different arguments than the type-check callback accepted")
		}
		if !implEv.retType.Equals(spy.typeRet) {
			fail("impl-args", "impl-rettype", "the implementation was given return type %#v but the type-check callback returned %#v", implEv.retType, spy.typeRet)
		}
	}
	if typeEv != nil && arityOK && len(offences) == 0 && !dyn {
		if strings.Join(typeEv.args, "\x00") != strings.Join(expArgs, "\x00") {
			fail("type-args", "type-args"+marksSig(typeEv.args, expArgs), "the type-check callback received arguments other than the contract prescribes\nreceived: %v\nexpected: %v", clipAll(typeEv.args), clipAll(expArgs))
		}
	}
	// ---- outcome
	if !arityOK {
		if err == nil {
			fail("arity-accepted", "arity-accepted", "a call with %d arguments was accepted by a function of %d parameters (variadic=%t)", nargs, np, sp.varP != nil)
		}
		if typeEv != nil || implEv != nil {
			fail("callback-order", "order:callback-on-arity-error", "a callback ran although the argument count is wrong")
		}
		c.Probe("c10.arity-error")
		return
	}
	isOffending := func(i int) bool {
		for _, o := range offences {
			if o == i {
				return true
			}
		}
		return false
	}
	if err != nil {
		var ae function.ArgError
		var pe function.PanicError
		switch {
		case errors.As(err, &ae):
			if typeEv != nil {
				// an argument error produced by the author's own callback would be legitimate, but ours never does that
				fail("spurious-error", "argerror-after-type", "an argument error was returned after the type-check callback had run")
			}
			if len(offences) == 0 {
				fail("spurious-error", "argerror-without-offence", "argument error for argument %d although every argument satisfies its contract", ae.Index)
			}
			if !isOffending(ae.Index) {
				sig := "argerror-index"
				if offences[0] >= np {
					sig += ":variadic"
				}
				fail("wrong-arg-index", sig, "the argument error names argument %d, but the offending arguments are %v", ae.Index, offences)
			}
			c.Probe("c10.argerror")
			if ae.Index >= np {
				c.Probe("c10.argerror-variadic")
			}
		case errors.As(err, &pe):
			okPanic := (typeEv != nil && sp.tyBeh == tyPanic) || (implEv != nil && (sp.imBeh == imPanic || (sp.imBeh == imWrongType && spy.implRet != cty.NilVal && !conformsLib(spy.implRet.Type(), spy.typeRet))))
			if !okPanic {
				fail("spurious-error", "panicerror-spurious", "a PanicError was returned although no callback panicked and the result conforms: %v", firstLine(pe.Error()))
			}
			c.Probe("c10.panicerror")
		case err == spy.typeErr && spy.typeErr != nil:
			c.Probe("c10.type-error-returned")
		case err == spy.implErr && spy.implErr != nil:
			c.Probe("c10.impl-error-returned")
		default:
			fail("spurious-error", "unexpected-error", "unexpected error %T: %v", err, err)
		}
		if len(offences) == 0 && typeEv == nil && !(errors.As(err, &pe)) {
			fail("spurious-error", "error-without-reason", "an error was returned although no argument offends and no callback ran")
		}
		return
	}
	// err == nil
	if len(offences) > 0 && !dyn {
		sig := "offence-accepted:" + offKind[offences[0]]
		if offences[0] >= np {
			sig += ":variadic"
		}
		fail("offence-accepted", sig, "argument %d violates the %s contract but the call succeeded", offences[0], offKind[offences[0]])
	}
	if sp.tyBeh == tyError || sp.tyBeh == tyPanic {
		if typeEv != nil {
			fail("callback-failure-lost", "type-failure-lost", "the type-check callback failed but the call succeeded")
		}
	}
	if typeOnlyEntry {
		switch {
		case dyn && typeEv == nil:
			if resT != cty.DynamicPseudoType {
				fail("wrong-type-result", "returntype-dyn", "a disallowed dynamically-typed argument must make the return type unknown (dynamic), got %#v", resT)
			}
		case typeEv == nil:
			fail("callback-order", "order:type-skipped", "a return type was produced without running the type-check callback")
		case !resT.Equals(spy.typeRet):
			fail("wrong-type-result", "returntype", "the return type %#v is not what the type-check callback returned (%#v)", resT, spy.typeRet)
		}
		return
	}
	observe(c, res, "Function.Call")
	ures, topMarks := res.Unmark()
	gotMarks := map[string]bool{}
	for m := range topMarks {
		gotMarks[fmt.Sprint(m)] = true
	}
	_, deepMarks := res.UnmarkDeep()
	for m := range required {
		if _, ok := deepMarks[m]; !ok {
			sig := "mark-lost"
			if implEv == nil {
				sig += ":short-circuit"
			}
			fail("mark-lost", sig, "the result lacks the mark %q carried by an argument whose parameter does not allow marks\nresult: %s", m, safeGoString(res))
		}
	}
	for m := range deepMarks {
		ms := fmt.Sprint(m)
		if !allMarks[ms] && !(ms == "implmark" && implEv != nil) {
			fail("mark-invented", "mark-invented", "the result carries the mark %v that no argument and no callback result carries", m)
		}
	}
	checkRefined := func() {
		if sp.refine && res.Type() != cty.DynamicPseudoType && !ures.IsKnown() {
			if !ures.Range().DefinitelyNotNull() {
				sig := "refinement-lost"
				if implEv == nil {
					sig += ":short-circuit"
				}
				fail("refinement-lost", sig, "the declared result refinement (not null) is missing from the typed unknown result %s", safeGoString(res))
			}
			if sp.refineKind > 0 && res.Type().Equals(sp.retT.Cty()) {
				r := ures.Range()
				ok := true
				switch Kind(sp.refineKind - 1) {
				case KNumber:
					lo, inc := r.NumberLowerBound()
					ok = lo.IsKnown() && inc && lo.RawEquals(cty.NumberIntVal(0))
				case KString:
					ok = r.StringPrefix() == "res"
				case KList, KMap, KSet:
					ok = r.LengthLowerBound() == 1
				}
				if !ok {
					sig := "refinement-lost:bound"
					if implEv == nil {
						sig += ":short-circuit"
					}
					fail("refinement-lost", sig, "the declared result refinement (a bound on %s results) is missing from the typed unknown result %s", kindNames[sp.refineKind-1], safeGoString(res))
				}
				c.Probe("c10.bound-refinement-checked")
			}
		}
	}
	if implEv == nil && !unpredictable || unpredictable && (dyn || unknownShort) {
		// short-circuit: must be an unknown value, for a stated reason
		if ures.IsKnown() {
			fail("result-without-impl", "result-without-impl", "a known result was returned although the implementation did not run: %s", safeGoString(res))
		}
		switch {
		case dyn && typeEv == nil:
			if res.Type() != cty.DynamicPseudoType {
				fail("wrong-type-result", "short-circuit-dyn-type", "the short-circuit for a disallowed dynamically-typed argument must be an unknown of unknown type, got %#v", res.Type())
			}
			c.Probe("c10.short-circuit-dynamic")
		case unknownShort || dyn:
			if typeEv == nil {
				fail("callback-order", "order:type-skipped", "an unknown of a checked type was returned without running the type-check callback")
			}
			if !res.Type().Equals(spy.typeRet) {
				fail("wrong-type-result", "short-circuit-type", "the short-circuit result has type %#v but the checked return type is %#v", res.Type(), spy.typeRet)
			}
			c.Probe("c10.short-circuit-unknown")
		default:
			fail("result-without-impl", "short-circuit-without-reason", "the call short-circuited to %s although every argument is allowed", safeGoString(res))
		}
		checkRefined()
		return
	}
	// the implementation ran (or Unpredictable replaced it)
	if unpredictable {
		if ures.IsKnown() || !res.Type().Equals(spy.typeRet) {
			fail("wrong-result", "unpredictable", "an unpredictable function returned %s, want an unknown of %#v", safeGoString(res), spy.typeRet)
		}
		checkRefined()
		return
	}
	switch sp.imBeh {
	case imError, imPanic:
		fail("callback-failure-lost", "impl-failure-lost", "the implementation failed but the call succeeded with %s", safeGoString(res))
	}
	if !conformsLib(res.Type(), spy.typeRet) {
		fail("nonconforming-result", "nonconforming-result", "the result %s does not conform to the checked return type %#v", safeGoString(res), spy.typeRet)
	}
	// the result is what the implementation returned, plus marks, plus refinement
	want, _ := spy.implRet.Unmark()
	if sp.refine && !want.IsKnown() && want.Type() != cty.DynamicPseudoType {
		want = ures // an unknown result: compared through its range below (checkRefined), and by type here
		if !ures.Type().Equals(spy.implRet.Type()) || ures.IsKnown() {
			want = cty.UnknownVal(spy.implRet.Type()).RefineNotNull()
		}
	}
	if fp(ures) != fp(want) {
		fail("wrong-result", "result-differs", "the result %s is not the implementation's result %s (marks and declared refinement aside)", safeGoString(res), safeGoString(spy.implRet))
	}
	checkRefined()
	c.Probe("c10.impl-result-returned")
}

func conformsLib(t, want cty.Type) bool { return len(t.TestConformance(want)) == 0 }

func clipAll(ss []string) []string {
	out := make([]string, len(ss))
	for i, s := range ss {
		if len(s) > 160 {
			s = s[:160] + "…"
		}
		out[i] = s
	}
	return out
}

// marksSig tells a marks-related difference from any other.
func marksSig(got, want []string) string {
	if len(got) != len(want) {
		return ":count"
	}
	for i := range got {
		if got[i] != want[i] {
			if strings.Contains(got[i], "marks{") && !strings.Contains(want[i], "marks{") {
				return ":marks-kept"
			}
			return ":other"
		}
	}
	return ""
}

// ways a callback can panic: what reaches recover() differs (a string, an error value, an error of the
// Go runtime, a value of the author's own type), the contract does not
var panicKindNames = []string{"string", "error-value", "runtime-index", "runtime-nil-map", "runtime-nil-deref", "runtime-type-assertion", "custom-type"}

const numPanicKinds = 7

type c10PanicValue struct{ why string }

func injectedPanic(kind int, msg string, args []cty.Value) {
	switch kind {
	case 1:
		panic(errors.New(msg))
	case 2:
		_ = args[len(args)] // index out of range
	case 3:
		var m map[string]int
		m[msg] = 1
	case 4:
		var p *c10PanicValue
		_ = p.why
	case 5:
		var x interface{} = msg
		_ = x.(int)
	case 6:
		panic(c10PanicValue{msg})
	}
	panic(msg)
}

// c10NearMiss copies a concrete type with one element / member type replaced by the placeholder (nil when the type has
// nothing to replace).
func c10NearMiss(c *Ctx, t *TDesc) *TDesc {
	switch t.K {
	case KList, KSet, KMap:
		n := *t
		n.cached = nil
		if t.Elem.K != KDynamic && (c.G(2) == 0 || t.Elem.K <= KBool) {
			n.Elem = tDynamic
			return &n
		}
		if in := c10NearMiss(c, t.Elem); in != nil {
			n.Elem = in
			return &n
		}
	case KTuple, KObject:
		if len(t.Elems) == 0 {
			return nil
		}
		n := *t
		n.cached = nil
		n.Elems = append([]*TDesc(nil), t.Elems...)
		i := c.G(len(t.Elems))
		if in := c10NearMiss(c, t.Elems[i]); in != nil {
			n.Elems[i] = in
			return &n
		}
	}
	return nil
}
