package main

// Shared generator of types and values (DESIGN.md §4). Everything is described
// first (TDesc / VDesc) and only then built through go-cty's public
// constructors; the descriptions are the checker's own ground truth (model
// trees, canonical keys), never read back from the library.

import (
	"fmt"
	"math"
	"math/big"
	"reflect"
	"sort"
	"strconv"
	"strings"

	"github.com/zclconf/go-cty/cty"
	"golang.org/x/text/unicode/norm"
	"verif/internal/tape"
)

type Kind int

const (
	KString Kind = iota
	KNumber
	KBool
	KList
	KTuple
	KMap
	KObject
	KSet
	KDynamic
	KCapsule
)

var kindNames = []string{"string", "number", "bool", "list", "tuple", "map", "object", "set", "dynamic", "capsule"}

type TDesc struct {
	K        Kind
	Elem     *TDesc
	Elems    []*TDesc // tuple element types, or object attribute types (parallel to Names)
	Names    []string // object attribute names, NFC, sorted
	Optional []bool   // object: parallel to Names (type constraints only)
	Cap      int      // capsule type index
	cached   *cty.Type
}

var (
	tString  = &TDesc{K: KString}
	tNumber  = &TDesc{K: KNumber}
	tBool    = &TDesc{K: KBool}
	tDynamic = &TDesc{K: KDynamic}
)

type capPayload struct{ N int }

var capTypes []cty.Type

func init() {
	capTypes = []cty.Type{
		cty.Capsule("verifplain", reflect.TypeOf(capPayload{})),
		cty.CapsuleWithOps("verifops", reflect.TypeOf(capPayload{}), &cty.CapsuleOps{
			GoString:     func(v interface{}) string { return fmt.Sprintf("verifops(%d)", v.(*capPayload).N) },
			TypeGoString: func(reflect.Type) string { return "verifopsType" },
			Equals: func(a, b interface{}) cty.Value {
				return cty.BoolVal(a.(*capPayload).N%8 == b.(*capPayload).N%8)
			},
			RawEquals: func(a, b interface{}) bool { return a.(*capPayload).N%8 == b.(*capPayload).N%8 },
			HashKey:   func(v interface{}) string { return fmt.Sprint(v.(*capPayload).N % 2) },
			// conversions to and from the capsule type (the payload pointers come from the fixed pool, so
			// that the same source always converts to the same, comparable, encapsulated pointer)
			ConversionFrom: func(dst cty.Type) func(interface{}, cty.Path) (cty.Value, error) {
				switch {
				case dst == cty.Number:
					return func(v interface{}, _ cty.Path) (cty.Value, error) {
						return cty.NumberIntVal(int64(v.(*capPayload).N)), nil
					}
				case dst == cty.String:
					return func(v interface{}, _ cty.Path) (cty.Value, error) {
						if v.(*capPayload).N == 5 {
							return cty.NilVal, fmt.Errorf("payload 5 has no text")
						}
						return cty.StringVal(fmt.Sprintf("cap%d", v.(*capPayload).N)), nil
					}
				}
				return nil
			},
			ConversionTo: func(src cty.Type) func(cty.Value, cty.Path) (interface{}, error) {
				if src == cty.Bool {
					return func(v cty.Value, _ cty.Path) (interface{}, error) {
						if v.True() {
							return capPayloads[1][1], nil
						}
						return capPayloads[1][0], nil
					}
				}
				return nil
			},
			ExtensionData: func(key interface{}) interface{} {
				if key == "verif" {
					return "extension data"
				}
				return nil
			},
		}),
	}
	// a twin of the plain capsule type: the same name, the same Go type - and another type (capsule types are what
	// they are by identity; whatever keys on how a type prints confuses the two)
	capTypes = append(capTypes, cty.Capsule("verifplain", reflect.TypeOf(capPayload{})))
	for ti := range capPayloads {
		for i := range capPayloads[ti] {
			capPayloads[ti][i] = &capPayload{N: i}
		}
	}
}

// a fixed pool of payload pointers per capsule type, so that pointer identity is meaningful
var capPayloads [3][12]*capPayload

func (t *TDesc) Cty() cty.Type {
	if t.cached != nil {
		return *t.cached
	}
	var r cty.Type
	switch t.K {
	case KString:
		r = cty.String
	case KNumber:
		r = cty.Number
	case KBool:
		r = cty.Bool
	case KDynamic:
		r = cty.DynamicPseudoType
	case KList:
		r = cty.List(t.Elem.Cty())
	case KSet:
		r = cty.Set(t.Elem.Cty())
	case KMap:
		r = cty.Map(t.Elem.Cty())
	case KTuple:
		etys := make([]cty.Type, len(t.Elems))
		for i, e := range t.Elems {
			etys[i] = e.Cty()
		}
		r = cty.Tuple(etys)
	case KObject:
		atys := make(map[string]cty.Type, len(t.Names))
		var opt []string
		for i, n := range t.Names {
			atys[n] = t.Elems[i].Cty()
			if t.Optional != nil && t.Optional[i] {
				opt = append(opt, n)
			}
		}
		if len(opt) > 0 {
			r = cty.ObjectWithOptionalAttrs(atys, opt)
		} else {
			r = cty.Object(atys)
		}
	case KCapsule:
		r = capTypes[t.Cap]
	}
	t.cached = &r
	return r
}

func (t *TDesc) String() string {
	switch t.K {
	case KList, KSet, KMap:
		return kindNames[t.K] + "(" + t.Elem.String() + ")"
	case KTuple:
		p := make([]string, len(t.Elems))
		for i, e := range t.Elems {
			p[i] = e.String()
		}
		return "tuple(" + strings.Join(p, ",") + ")"
	case KObject:
		p := make([]string, len(t.Names))
		for i, n := range t.Names {
			o := ""
			if t.Optional != nil && t.Optional[i] {
				o = "?"
			}
			p[i] = fmt.Sprintf("%q%s:%s", n, o, t.Elems[i].String())
		}
		return "object(" + strings.Join(p, ",") + ")"
	case KCapsule:
		return fmt.Sprintf("capsule%d", t.Cap)
	}
	return kindNames[t.K]
}

func (t *TDesc) HasDynamic() bool {
	switch t.K {
	case KDynamic:
		return true
	case KList, KSet, KMap:
		return t.Elem.HasDynamic()
	case KTuple, KObject:
		for _, e := range t.Elems {
			if e.HasDynamic() {
				return true
			}
		}
	}
	return false
}

func (t *TDesc) HasCapsule() bool {
	switch t.K {
	case KCapsule:
		return true
	case KList, KSet, KMap:
		return t.Elem.HasCapsule()
	case KTuple, KObject:
		for _, e := range t.Elems {
			if e.HasCapsule() {
				return true
			}
		}
	}
	return false
}

// attribute names / map keys: NFC forms are pairwise distinct; the raw spelling may be decomposed.
var keyPool = []struct{ raw, nfc string }{
	{"a", "a"}, {"b", "b"}, {"c", "c"}, {"k", "k"},
	{"e\u0301", "\u00e9"}, {"\u00e9x", "\u00e9x"}, {"A\u030a", "\u00c5"}, {"\u1100\u1161", "\uac00"},
	{"zz", "zz"}, {"", ""},
}

// GenOpts steers generation.
type GenOpts struct {
	Dynamic   bool // allow dynamic placeholders in types
	Optional  bool // allow optional attributes in object types
	Capsule   bool
	Marks     bool
	Unknown   bool
	Null      bool
	Refine    bool
	NoSet     bool
	Collide   bool // collision-biased numbers
	Long      int  // > 0: a third of the strings are long twins of that many bytes, identical except at one position
	LongColl  int  // > 0: a third of the lists, sets and maps of numbers / strings are long twins of that many members, identical except for one member
	Fam       int  // > 0: half of the strings and numbers come from one family of truly hash-colliding values (collisions.go)
	MarkDense bool // every second node marked instead of every sixth
	MaxLen    int
}

func genType(c *Ctx, depth int, o GenOpts) *TDesc {
	n := 3
	if depth > 0 {
		n = 8
		if o.Dynamic {
			n = 9
		}
		if o.Capsule {
			n = 10
		}
	} else if o.Dynamic || o.Capsule {
		n = 3
	}
	k := Kind(c.G(n))
	if k == KSet && o.NoSet {
		k = KList
	}
	if k == KDynamic && !o.Dynamic {
		k = KString
	}
	if k == KCapsule && !o.Capsule {
		k = KNumber
	}
	switch k {
	case KString:
		return tString
	case KNumber:
		return tNumber
	case KBool:
		return tBool
	case KDynamic:
		return tDynamic
	case KCapsule:
		return &TDesc{K: KCapsule, Cap: c.G(3)}
	case KList, KSet, KMap:
		return &TDesc{K: k, Elem: genType(c, depth-1, o)}
	case KTuple:
		n := c.G(4)
		t := &TDesc{K: KTuple}
		for i := 0; i < n; i++ {
			t.Elems = append(t.Elems, genType(c, depth-1, o))
		}
		return t
	case KObject:
		n := c.G(4)
		t := &TDesc{K: KObject}
		used := map[int]bool{}
		var idx []int
		for i := 0; i < n; i++ {
			ki := c.G(len(keyPool))
			if used[ki] {
				continue
			}
			used[ki] = true
			idx = append(idx, ki)
		}
		sort.Slice(idx, func(i, j int) bool { return keyPool[idx[i]].nfc < keyPool[idx[j]].nfc })
		for _, ki := range idx {
			t.Names = append(t.Names, keyPool[ki].nfc)
			t.Elems = append(t.Elems, genType(c, depth-1, o))
			if o.Optional {
				if t.Optional == nil {
					t.Optional = make([]bool, 0, n)
				}
				t.Optional = append(t.Optional, c.G(4) == 3)
			}
		}
		return t
	}
	return tString
}

// ---------------------------------------------------------------------------
// numbers

const (
	NumParse = iota // cty.ParseNumberVal(text): 512-bit
	NumFloat        // cty.NumberFloatVal(strconv float64 of text)
	NumInt          // cty.NumberIntVal (only for integer texts that fit)
	NumPrec         // cty.NumberVal(big.Float at Prec bits parsed from text)
	NumPosInf
	NumNegInf
	NumNegZero
)

type NumDesc struct {
	Mode int
	Text string
	Prec uint
}

var numTexts = []string{
	"0", "1", "2", "-1", "3", "10", "5", "7",
	"0.5", "1.5", "0.1", "-2.25",
	"1.00000000001", "1.00000000002", "1.00000000003", "1.0000000000", "1.000000000012",
	"3.9119020815", "2.7182818284", "2.71828182845", "0.30000000000000004", "0.3",
	"123456789012345678901234567890", "123456789012345678901234567891", "1e100", "9007199254740993",
	"4294967296", "-4294967297", "1e-30", "255",
}

// numTripleFocus >= 0: half of the numbers of the run come from one triple (set and reset by a simulation that wants
// the three to meet: a population of a few members drawn from all triples rarely holds one of them whole).
var numTripleFocus = -1

// numTriple: a decimal held at low precision, the same decimal held exactly enough, and a number strictly between the
// decimal and what the low precision makes of it. The first two are one number, and wherever the third is put relative
// to one of them it must be put relative to the other.
func numTriple(c *Ctx, which int) NumDesc {
	t := []string{"0.1", "0.3", "0.7", "2.2", "123.456", "-0.6"}[which%6]
	prec := []uint{24, 16, 11}[(which/6)%3]
	switch c.G(4) {
	case 0:
		return NumDesc{Mode: NumPrec, Prec: prec, Text: t}
	case 1:
		return NumDesc{Mode: []int{NumParse, NumFloat}[c.G(2)], Text: t}
	}
	exact, _, _ := big.ParseFloat(t, 10, 512, big.ToNearestEven)
	low, _, _ := big.ParseFloat(t, 10, prec, big.ToNearestEven)
	mid := new(big.Float).SetPrec(512).Add(exact, low)
	mid.Quo(mid, big.NewFloat(2))
	return NumDesc{Mode: NumParse, Text: mid.Text('g', 24)}
}

func genNum(c *Ctx, collide bool) NumDesc {
	if numTripleFocus >= 0 && c.G(2) == 0 {
		return numTriple(c, numTripleFocus)
	}
	var ti int
	if collide {
		ti = 8 + c.G(len(numTexts)-8)
		if c.G(3) == 0 {
			ti = c.G(len(numTexts))
		}
	} else {
		ti = c.G(len(numTexts))
		if c.G(4) != 0 {
			ti = c.G(12)
		}
	}
	d := NumDesc{Text: numTexts[ti]}
	switch c.G(8) {
	case 0:
		// a power of two or one of its float64 neighbours, written the shortest way that float64 reads back:
		// other precisions read a slightly different number from the same text, on the other side of the
		// power of two (another binary exponent, the same decimal)
		k := c.G(161) - 80
		f := math.Ldexp(1, k)
		switch c.G(4) {
		case 1:
			f = math.Nextafter(f, 0)
		case 2:
			f = math.Nextafter(f, math.Inf(1))
		}
		if c.G(2) == 0 {
			f = -f
		}
		d.Text = strconv.FormatFloat(f, 'g', -1, 64)
	case 3:
		return numTriple(c, c.G(18))
	case 2:
		// whole numbers around the limits of the machine integer and float types
		k := []uint{7, 8, 15, 16, 24, 31, 32, 53, 62, 63, 64, 65, 127, 128}[c.G(14)]
		bi := new(big.Int).Lsh(big.NewInt(1), k)
		bi.Add(bi, big.NewInt(int64(c.G(3)-1)))
		if c.G(2) == 0 {
			bi.Neg(bi)
		}
		d.Text = bi.String()
	case 1:
		// any float64 of moderate magnitude, likewise
		mant := uint64(c.G(1<<26))<<26 | uint64(c.G(1<<26))
		f := math.Ldexp(float64(mant|1<<52), c.G(121)-60-52)
		d.Text = strconv.FormatFloat(f, 'g', -1, 64)
	}
	huge := false
	if c.G(48) == 0 && hugeNumbers {
		// far beyond what float64 holds: a power of two (one significant bit, so every precision holds it exactly)
		// or its neighbour at 53 bits, thousands of binary digits away from one
		k := []int{1100, 4097, 4100, 1100, 4097}[c.G(5)] // (small magnitudes this far out cost seconds to print)
		f := new(big.Float).SetMantExp(big.NewFloat(1), k)
		if c.G(3) == 0 {
			f.SetPrec(53).Add(f, new(big.Float).SetMantExp(big.NewFloat(1), k-52))
		}
		if c.G(2) == 0 {
			f.Neg(f)
		}
		d.Text = f.Text('g', -1)
		if f.IsInt() {
			bi, _ := f.Int(nil)
			d.Text = bi.String()
		}
		huge = true
	}
	m := c.G(12)
	if huge && (m == 6 || m == 7 || m == 8) {
		m = 9 // (float64 and int64 cannot hold it)
	}
	switch {
	case m <= 5:
		d.Mode = NumParse
	case m <= 7:
		d.Mode = NumFloat
	case m == 8:
		d.Mode = NumInt
		if bi, ok := new(big.Int).SetString(d.Text, 10); !ok || !bi.IsInt64() {
			d.Mode = NumParse
		}
	case m == 9:
		d.Mode = NumPrec
		d.Prec = []uint{24, 53, 64, 200}[c.G(4)]
	case m == 10:
		d.Mode = []int{NumPosInf, NumNegInf}[c.G(2)]
		if !collide && c.G(3) != 0 {
			d.Mode = NumParse
		}
	default:
		d.Mode = NumNegZero
		if c.G(2) == 0 {
			d.Mode = NumParse
		}
	}
	return d
}

// Float builds the checker's own big.Float for the description, through math/big only.
func (d NumDesc) Float() *big.Float {
	switch d.Mode {
	case NumPosInf:
		return new(big.Float).SetInf(false)
	case NumNegInf:
		return new(big.Float).SetInf(true)
	case NumNegZero:
		return new(big.Float).Neg(new(big.Float))
	case NumFloat:
		f, _, _ := big.ParseFloat(d.Text, 10, 53, big.ToNearestEven)
		f64, _ := f.Float64()
		return new(big.Float).SetFloat64(f64)
	case NumInt:
		bi, _ := new(big.Int).SetString(d.Text, 10)
		return new(big.Float).SetInt64(bi.Int64())
	case NumPrec:
		f, _, _ := big.ParseFloat(d.Text, 10, d.Prec, big.ToNearestEven)
		return f
	}
	f, _, _ := big.ParseFloat(d.Text, 10, 512, big.ToNearestEven)
	return f
}

func (d NumDesc) Value() cty.Value {
	switch d.Mode {
	case NumPosInf:
		return cty.PositiveInfinity
	case NumNegInf:
		return cty.NegativeInfinity
	case NumNegZero:
		return cty.NumberFloatVal(negZero())
	case NumFloat:
		f64, _ := d.Float().Float64()
		return cty.NumberFloatVal(f64)
	case NumInt:
		bi, _ := new(big.Int).SetString(d.Text, 10)
		return cty.NumberIntVal(bi.Int64())
	case NumPrec:
		return cty.NumberVal(d.Float()) // ownership passes to the library; the checker keeps no reference
	}
	return cty.MustParseNumberVal(d.Text)
}

func negZero() float64 {
	z := 0.0
	return -z
}

func (d NumDesc) String() string {
	switch d.Mode {
	case NumPosInf:
		return "+inf"
	case NumNegInf:
		return "-inf"
	case NumNegZero:
		return "-0"
	case NumFloat:
		return "float64(" + d.Text + ")"
	case NumInt:
		return "int64(" + d.Text + ")"
	case NumPrec:
		return fmt.Sprintf("prec%d(%s)", d.Prec, d.Text)
	}
	return "parse(" + d.Text + ")"
}

// Tri is a three-valued ground truth.
type Tri int

const (
	No Tri = iota
	Yes
	Ambiguous
)

// numSame is the checker's ground truth for number equality: exactly equal values are
// equal; values whose shortest decimal renderings differ are unequal; the remaining case
// (different binary values that print alike) is left to the library, consistently.
func numSame(a, b NumDesc) Tri {
	fa, fb := a.Float(), b.Float()
	if fa.Cmp(fb) == 0 {
		return Yes
	}
	if fa.IsInf() || fb.IsInf() {
		return No
	}
	if fa.Text('f', -1) != fb.Text('f', -1) {
		return No
	}
	return Ambiguous
}

// ---------------------------------------------------------------------------
// strings

var strPool = []string{
	"", "a", "b", "ab", "hello", "\u00e9", "e\u0301", "\u00c5", "A\u030a", "\u212b",
	"\uac00", "\u1100\u1161", "x\u0301y", "\U0001F44D", "\U0001F44D\U0001F3FD", "line\r\n", "a,b", "\u0301",
	"zebra", "Z", "10", "true",
	// long enough for the wider string headers of the encodings (more than 31 and more than 255 bytes)
	strings.Repeat("long-\u00e9-", 6), strings.Repeat("xy\u0301z ", 60),
}

// longTwin: strings of n bytes that are identical except for one letter at one of five positions (first, a
// quarter in, middle, three quarters in, last) - whatever samples, truncates or summarises long strings must
// still tell them apart.
func longTwin(n, where, letter int) string {
	b := []byte(strings.Repeat("lorem ipsum ", n/12+1))[:n]
	pos := []int{0, n / 4, n / 2, 3 * n / 4, n - 1}[where%5]
	b[pos] = "XYZ"[letter%3]
	return string(b)
}

// longTwinColl: collections of n members that are identical except for one member at one of five positions -
// whatever samples, truncates or summarises long collections must still tell them apart.
func longTwinColl(v *VDesc, n, where, variant int) {
	pos := []int{0, n / 4, n / 2, 3 * n / 4, n - 1}[where%5]
	for i := 0; i < n; i++ {
		e := &VDesc{T: v.T.Elem}
		if v.T.Elem.K == KNumber {
			e.Num = NumDesc{Mode: NumParse, Text: strconv.Itoa(i)}
			if i == pos {
				e.Num.Text = strconv.Itoa(1000 + variant%3)
			}
		} else {
			e.S = fmt.Sprintf("m%03d", i)
			if i == pos {
				e.S = fmt.Sprintf("m%03d-%c", i, "XYZ"[variant%3])
			}
		}
		if v.T.K == KMap {
			v.Keys = append(v.Keys, fmt.Sprintf("k%03d", i))
		}
		v.Elems = append(v.Elems, e)
	}
}

func genStr(c *Ctx) string { return strPool[c.G(len(strPool))] }

func nfc(s string) string { return norm.NFC.String(s) }

// ---------------------------------------------------------------------------
// values

const (
	StKnown = iota
	StNull
	StUnknown
)

type RefDesc struct {
	NotNull        bool
	HasLo, HasHi   bool
	Lo, Hi         NumDesc
	LoInc, HiInc   bool
	Prefix         string
	MinLen, MaxLen int // MaxLen < 0: unbounded
	HasMin, HasMax bool
}

type VDesc struct {
	T     *TDesc
	St    int
	Ref   *RefDesc
	Marks []string
	B     bool
	Num   NumDesc
	S     string   // raw spelling handed to StringVal
	Elems []*VDesc // list / tuple / set members, map / object values
	Keys  []string // map keys, object attribute names: raw spellings, parallel to Elems
	Cap   int      // capsule payload index
}

var markPool = []string{"m1", "m2", "sensitive"}

func genMarks(c *Ctx, o GenOpts) []string {
	if !o.Marks {
		return nil
	}
	if o.MarkDense {
		if c.G(2) == 0 {
			return nil
		}
	} else if c.G(6) != 5 {
		return nil
	}
	m := []string{markPool[c.G(len(markPool))]}
	if c.G(3) == 2 {
		x := markPool[c.G(len(markPool))]
		if x != m[0] {
			m = append(m, x)
		}
	}
	sort.Strings(m)
	return m
}

func genRef(c *Ctx, t *TDesc) *RefDesc {
	r := &RefDesc{MaxLen: -1}
	r.NotNull = c.G(2) == 1
	switch t.K {
	case KNumber:
		if c.G(2) == 1 {
			r.HasLo, r.Lo, r.LoInc = true, NumDesc{Mode: NumParse, Text: numTexts[c.G(8)]}, c.G(2) == 0
		}
		if c.G(2) == 1 {
			r.HasHi, r.Hi, r.HiInc = true, NumDesc{Mode: NumParse, Text: numTexts[c.G(8)]}, c.G(2) == 0
		}
		if r.HasLo && r.HasHi && r.Lo.Float().Cmp(r.Hi.Float()) > 0 {
			r.Lo, r.Hi = r.Hi, r.Lo
		}
	case KString:
		if c.G(2) == 1 {
			r.Prefix = []string{"a", "ab", "hel", "\u00e9", "x-"}[c.G(5)]
		}
	case KList, KSet, KMap:
		if c.G(2) == 1 {
			r.HasMin, r.MinLen = true, c.G(3)
		}
		if c.G(2) == 1 {
			r.HasMax, r.MaxLen = true, 2+c.G(4)
		}
	}
	return r
}

// genValue generates a value description of concrete type t.
// Inside sets no marks are generated (SetVal would hoist them to the set).
func genValue(c *Ctx, t *TDesc, depth int, o GenOpts) *VDesc {
	v := &VDesc{T: t}
	v.Marks = genMarks(c, o)
	if t.K == KDynamic {
		// only DynamicVal and the dynamically-typed null exist
		if o.Null && c.G(3) == 2 {
			v.St = StNull
		} else {
			v.St = StUnknown
		}
		return v
	}
	s := c.G(12)
	if s == 10 && o.Null {
		v.St = StNull
		return v
	}
	if s == 11 && o.Unknown {
		v.St = StUnknown
		if o.Refine && c.G(2) == 1 {
			v.Ref = genRef(c, t)
			v.normalizeCollapsed()
		}
		return v
	}
	maxLen := o.MaxLen
	if maxLen == 0 {
		maxLen = 3
	}
	if o.LongColl > 0 && (t.K == KList || t.K == KSet || t.K == KMap) && (t.Elem.K == KNumber || t.Elem.K == KString) && c.G(3) == 0 {
		longTwinColl(v, o.LongColl, c.G(5), c.G(3))
		return v
	}
	switch t.K {
	case KBool:
		v.B = c.G(2) == 1
	case KNumber:
		if fam := familyInts(o.Fam); fam != nil && c.G(2) == 0 {
			v.Num = NumDesc{Mode: NumParse, Text: strconv.FormatInt(fam[c.G(len(fam))], 10)}
		} else {
			v.Num = genNum(c, o.Collide)
		}
	case KString:
		if fam := familyStrings(o.Fam); fam != nil && c.G(2) == 0 {
			v.S = fam[c.G(len(fam))]
		} else if o.Long > 0 && c.G(3) == 0 {
			v.S = longTwin(o.Long, c.G(5), c.G(3))
		} else {
			v.S = genStr(c)
		}
	case KCapsule:
		v.Cap = c.G(len(capPayloads[t.Cap]))
	case KList, KSet:
		n := c.G(maxLen + 1)
		inner := o
		if t.K == KSet {
			inner.Marks = false
		}
		for i := 0; i < n; i++ {
			v.Elems = append(v.Elems, genValue(c, t.Elem, depth-1, inner))
		}
	case KMap:
		n := c.G(maxLen + 1)
		used := map[int]bool{}
		for i := 0; i < n; i++ {
			ki := c.G(len(keyPool))
			if used[ki] {
				continue
			}
			used[ki] = true
			v.Keys = append(v.Keys, keyPool[ki].raw)
			v.Elems = append(v.Elems, genValue(c, t.Elem, depth-1, o))
		}
	case KTuple:
		for _, et := range t.Elems {
			v.Elems = append(v.Elems, genValue(c, et, depth-1, o))
		}
	case KObject:
		for i, n := range t.Names {
			raw := n
			for _, kp := range keyPool {
				if kp.nfc == n {
					raw = kp.raw
				}
			}
			v.Keys = append(v.Keys, raw)
			v.Elems = append(v.Elems, genValue(c, t.Elems[i], depth-1, o))
		}
	}
	return v
}

// stripMarks removes marks at every depth (used for set members).
func (v *VDesc) stripMarksDeep() {
	v.Marks = nil
	for _, e := range v.Elems {
		e.stripMarksDeep()
	}
}

// Build constructs the value through the public constructors.
func (v *VDesc) Build() cty.Value {
	r := v.buildUnmarked()
	for _, m := range v.Marks {
		r = r.Mark(m)
	}
	return r
}

func (v *VDesc) buildUnmarked() cty.Value {
	ty := v.T.Cty()
	switch v.St {
	case StNull:
		return cty.NullVal(ty)
	case StUnknown:
		u := cty.UnknownVal(ty)
		if v.Ref != nil && v.T.K != KDynamic {
			u = applyRef(u, v.Ref, v.T)
		}
		return u
	}
	switch v.T.K {
	case KBool:
		return cty.BoolVal(v.B)
	case KNumber:
		return v.Num.Value()
	case KString:
		return cty.StringVal(v.S)
	case KCapsule:
		return cty.CapsuleVal(ty, capPayloads[v.T.Cap][v.Cap])
	case KList:
		if len(v.Elems) == 0 {
			return cty.ListValEmpty(v.T.Elem.Cty())
		}
		return cty.ListVal(buildAll(v.Elems))
	case KSet:
		if len(v.Elems) == 0 {
			return cty.SetValEmpty(v.T.Elem.Cty())
		}
		return cty.SetVal(buildAll(v.Elems))
	case KTuple:
		return cty.TupleVal(buildAll(v.Elems))
	case KMap:
		if len(v.Elems) == 0 {
			return cty.MapValEmpty(v.T.Elem.Cty())
		}
		m := make(map[string]cty.Value, len(v.Elems))
		for i, e := range v.Elems {
			m[v.Keys[i]] = e.Build()
		}
		return cty.MapVal(m)
	case KObject:
		m := make(map[string]cty.Value, len(v.Elems))
		for i, e := range v.Elems {
			m[v.Keys[i]] = e.Build()
		}
		return cty.ObjectVal(m)
	}
	panic("unbuildable description")
}

func buildAll(vs []*VDesc) []cty.Value {
	out := make([]cty.Value, len(vs))
	for i, e := range vs {
		out[i] = e.Build()
	}
	return out
}

// applyRef applies a refinement description that is consistent by construction.
func applyRef(u cty.Value, r *RefDesc, t *TDesc) (out cty.Value) {
	defer func() {
		if recover() != nil {
			out = u // an inconsistent description degrades to the plain unknown
		}
	}()
	b := u.Refine()
	if r.NotNull {
		b = b.NotNull()
	}
	switch t.K {
	case KNumber:
		if r.HasLo {
			b = b.NumberRangeLowerBound(r.Lo.Value(), r.LoInc)
		}
		if r.HasHi {
			b = b.NumberRangeUpperBound(r.Hi.Value(), r.HiInc)
		}
	case KString:
		if r.Prefix != "" {
			b = b.StringPrefixFull(r.Prefix)
		}
	case KList, KSet, KMap:
		if r.HasMin {
			b = b.CollectionLengthLowerBound(r.MinLen)
		}
		if r.HasMax {
			b = b.CollectionLengthUpperBound(r.MaxLen)
		}
	}
	return b.NewValue()
}

// String renders a description in a small value-description language for replay files.
func (v *VDesc) String() string {
	var b strings.Builder
	v.render(&b)
	return b.String()
}

func (v *VDesc) render(b *strings.Builder) {
	switch v.St {
	case StNull:
		fmt.Fprintf(b, "null(%s)", v.T)
	case StUnknown:
		fmt.Fprintf(b, "unknown(%s", v.T)
		if r := v.Ref; r != nil {
			if r.NotNull {
				b.WriteString(" notnull")
			}
			if r.HasLo {
				fmt.Fprintf(b, " lo=%s/%t", r.Lo, r.LoInc)
			}
			if r.HasHi {
				fmt.Fprintf(b, " hi=%s/%t", r.Hi, r.HiInc)
			}
			if r.Prefix != "" {
				fmt.Fprintf(b, " prefix=%q", r.Prefix)
			}
			if r.HasMin {
				fmt.Fprintf(b, " minlen=%d", r.MinLen)
			}
			if r.HasMax {
				fmt.Fprintf(b, " maxlen=%d", r.MaxLen)
			}
		}
		b.WriteString(")")
	default:
		switch v.T.K {
		case KBool:
			fmt.Fprintf(b, "%t", v.B)
		case KNumber:
			b.WriteString(v.Num.String())
		case KString:
			fmt.Fprintf(b, "%+q", v.S)
		case KCapsule:
			fmt.Fprintf(b, "capsule%d#%d", v.T.Cap, v.Cap)
		case KList, KSet, KTuple:
			b.WriteString(kindNames[v.T.K])
			if len(v.Elems) == 0 {
				fmt.Fprintf(b, "<%s>", v.T)
			}
			b.WriteString("[")
			for i, e := range v.Elems {
				if i > 0 {
					b.WriteString(", ")
				}
				e.render(b)
			}
			b.WriteString("]")
		case KMap, KObject:
			b.WriteString(kindNames[v.T.K])
			if len(v.Elems) == 0 {
				fmt.Fprintf(b, "<%s>", v.T)
			}
			b.WriteString("{")
			for i, e := range v.Elems {
				if i > 0 {
					b.WriteString(", ")
				}
				fmt.Fprintf(b, "%+q: ", v.Keys[i])
				e.render(b)
			}
			b.WriteString("}")
		}
	}
	if len(v.Marks) > 0 {
		fmt.Fprintf(b, ".marks(%s)", strings.Join(v.Marks, ","))
	}
}

// descSame is the checker's ground truth for the documented equality of two wholly-known,
// null-free, mark-free descriptions of the same type.
func descSame(a, b *VDesc) Tri {
	if a.St != StKnown || b.St != StKnown {
		if a.St == StNull && b.St == StNull {
			return Yes
		}
		if a.St == StUnknown || b.St == StUnknown {
			return Ambiguous
		}
		return No
	}
	switch a.T.K {
	case KBool:
		return triOf(a.B == b.B)
	case KString:
		return triOf(nfc(a.S) == nfc(b.S))
	case KNumber:
		return numSame(a.Num, b.Num)
	case KCapsule:
		if a.T.Cap != 1 {
			return triOf(a.Cap == b.Cap)
		}
		return triOf(a.Cap%8 == b.Cap%8)
	case KList, KTuple:
		if len(a.Elems) != len(b.Elems) {
			return No
		}
		r := Yes
		for i := range a.Elems {
			switch descSame(a.Elems[i], b.Elems[i]) {
			case No:
				return No
			case Ambiguous:
				r = Ambiguous
			}
		}
		return r
	case KMap, KObject:
		if len(a.Elems) != len(b.Elems) {
			return No
		}
		r := Yes
		for i := range a.Elems {
			j := -1
			for k := range b.Keys {
				if nfc(b.Keys[k]) == nfc(a.Keys[i]) {
					j = k
				}
			}
			if j < 0 {
				return No
			}
			switch descSame(a.Elems[i], b.Elems[j]) {
			case No:
				return No
			case Ambiguous:
				r = Ambiguous
			}
		}
		return r
	case KSet:
		// set equality needs the set semantics themselves; leave to the set model
		return Ambiguous
	}
	return Ambiguous
}

func triOf(b bool) Tri {
	if b {
		return Yes
	}
	return No
}

func (v *VDesc) WhollyKnown() bool {
	if v.St != StKnown {
		return false
	}
	for _, e := range v.Elems {
		if !e.WhollyKnown() {
			return false
		}
	}
	return true
}

func (v *VDesc) HasNullOrUnknown() bool {
	if v.St != StKnown {
		return true
	}
	for _, e := range v.Elems {
		if e.HasNullOrUnknown() {
			return true
		}
	}
	return false
}

// AllMarks is the union of marks at every depth.
func (v *VDesc) AllMarks(into map[string]bool) {
	for _, m := range v.Marks {
		into[m] = true
	}
	for _, e := range v.Elems {
		e.AllMarks(into)
	}
}

var _ = tape.Gen

// normalizeCollapsed rewrites the description of a refined unknown that the documented rules
// collapse to a known value (equal inclusive bounds on a non-null number; a non-null collection
// of known length zero; a non-null list of known length), so that descriptions stay the ground truth.
func (v *VDesc) normalizeCollapsed() {
	r := v.Ref
	if v.St != StUnknown || r == nil || !r.NotNull {
		return
	}
	switch v.T.K {
	case KNumber:
		if r.HasLo && r.HasHi && r.LoInc && r.HiInc && r.Lo.Float().Cmp(r.Hi.Float()) == 0 {
			v.St, v.Ref, v.Num = StKnown, nil, r.Lo
		}
	case KList, KSet, KMap:
		if !(r.HasMin && r.HasMax && r.MinLen == r.MaxLen) {
			return
		}
		switch {
		case r.MinLen == 0:
			v.St, v.Ref, v.Elems, v.Keys = StKnown, nil, nil, nil
		case v.T.K == KList:
			v.St, v.Ref, v.Keys = StKnown, nil, nil
			v.Elems = nil
			for i := 0; i < r.MinLen; i++ {
				v.Elems = append(v.Elems, &VDesc{T: v.T.Elem, St: StUnknown})
			}
		case v.T.K == KSet && r.MinLen == 1:
			v.St, v.Ref, v.Keys = StKnown, nil, nil
			v.Elems = []*VDesc{{T: v.T.Elem, St: StUnknown}}
		}
	}
}

// hugeNumbers: whether genNum draws numbers thousands of binary digits away from one (set by the simulations whose
// subject they are: C03; elsewhere every rendering of such a number costs what thousands of ordinary ones cost).
var hugeNumbers = false
