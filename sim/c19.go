package main

// C19 — Walk, transform and paths address exactly the members of a value.
// DESIGN.md §5-C19. Three simulations:
//   walk:     recorded callback histories of Walk / Transform / TransformWithTransformer with
//             fault-injecting callbacks (prune, halt with error, replace a member), judged against
//             the generator's own model tree; unmark/re-mark by path; UnknownAsNull;
//   apply:    valid and damaged paths applied to generated values;
//   pathsets: seeded histories of PathSet operations against a model set of canonical renderings.

import (
	"errors"
	"fmt"
	"math/big"
	"sort"
	"strings"

	"github.com/zclconf/go-cty/cty"
)

type mnode struct {
	d        *VDesc
	key      string // rendering of the path
	idx      []int  // child indices from the root (into Elems)
	parent   int    // index of the parent node in the enumeration, -1 for the root
	underSet bool
	inSet    bool // the node itself is a set member (paths cannot address it)
}

// dedupeSets makes the description tree equal to the tree the library will hold: a set keeps
// the first of several equal members.
func dedupeSets(d *VDesc, atGeneration bool) {
	for _, e := range d.Elems {
		dedupeSets(e, atGeneration)
	}
	if d.T.K != KSet || d.St != StKnown {
		return
	}
	seen := map[string]bool{}
	var keep []*VDesc
	for _, e := range d.Elems {
		k, exact := canonKey(e)
		if !exact && !atGeneration {
			keep = append(keep, e)
			continue
		}
		if !exact {
			// two indistinguishable unknown-containing members would be two members with one and the
			// same path; the generated value keeps one of them
			k = "inexact:" + fp(e.Build())
		}
		if seen[k] {
			continue
		}
		seen[k] = true
		keep = append(keep, e)
	}
	d.Elems = keep
}

func stepKeyIndex(i int) string     { return "x:" + fp(cty.NumberIntVal(int64(i))) }
func stepKeyString(s string) string { return "x:" + fp(cty.StringVal(s)) }
func stepKeyAttr(n string) string   { return "a:" + n }
func stepKeyMember(d *VDesc) string { return "x:" + fp(d.Build()) }

func renderPath(p cty.Path) string {
	parts := make([]string, len(p))
	for i, s := range p {
		switch st := s.(type) {
		case cty.GetAttrStep:
			parts[i] = stepKeyAttr(st.Name)
		case cty.IndexStep:
			parts[i] = "x:" + fp(st.Key)
		default:
			parts[i] = fmt.Sprintf("?%T", s)
		}
	}
	return strings.Join(parts, "/")
}

func enumerate(d *VDesc, key string, idx []int, parent int, underSet, inSet bool, out *[]mnode) {
	me := len(*out)
	*out = append(*out, mnode{d: d, key: key, idx: append([]int(nil), idx...), parent: parent, underSet: underSet, inSet: inSet})
	if d.St != StKnown {
		return
	}
	join := func(s string) string {
		if key == "" {
			return s
		}
		return key + "/" + s
	}
	for i, e := range d.Elems {
		var sk string
		us := underSet
		is := false
		switch d.T.K {
		case KList, KTuple:
			sk = stepKeyIndex(i)
		case KMap:
			sk = stepKeyString(d.Keys[i])
		case KObject:
			sk = stepKeyAttr(nfc(d.Keys[i]))
		case KSet:
			sk = stepKeyMember(e)
			us, is = true, true
		default:
			continue
		}
		enumerate(e, join(sk), append(idx, i), me, us, is, out)
	}
}

func c19GenValue(c *Ctx) (*VDesc, cty.Value) {
	depth, maxLen := 3, 3
	if c.G(3) == 2 {
		depth, maxLen = 5, 2 // deep and narrow: path buffers get reused in place only from the fourth step on
	}
	t := genType(c, depth, GenOpts{Capsule: c.G(4) == 0})
	if c.G(3) != 0 && t.K <= KBool {
		t = genType(c, depth, GenOpts{}) // prefer structures
	}
	confusable := c.G(8) == 0
	if confusable {
		// members whose paths are easily confused: the attribute names along them read the same when run together
		// (a.bc / ab.c / "".abc / abc.""), optionally below the same index; path-keyed lookups must still tell them apart
		leaf := []*TDesc{tString, tNumber, tBool, {K: KList, Elem: tString}}[c.G(4)]
		pairs := [][2]string{{"a", "bc"}, {"ab", "c"}, {"", "abc"}, {"abc", ""}, {"a", "b"}, {"ab", ""}, {"", "ab"}}
		outer := &TDesc{K: KObject}
		byOuter := map[string]*TDesc{}
		for _, pr := range pairs {
			if c.G(3) == 0 {
				continue
			}
			in := byOuter[pr[0]]
			if in == nil {
				in = &TDesc{K: KObject}
				byOuter[pr[0]] = in
				outer.Names = append(outer.Names, pr[0])
				outer.Elems = append(outer.Elems, in)
			}
			in.Names = append(in.Names, pr[1])
			in.Elems = append(in.Elems, leaf)
		}
		if c.G(2) == 0 {
			// ... or attribute names that spell out, in one notation or another, the path of a member next to them
			outer = &TDesc{K: KObject}
			inner := []*TDesc{{K: KObject, Names: []string{"b", "c"}, Elems: []*TDesc{leaf, leaf}}, {K: KList, Elem: leaf}, {K: KMap, Elem: leaf}, {K: KTuple, Elems: []*TDesc{leaf, leaf}}}[c.G(4)]
			outer.Names = append(outer.Names, "a")
			outer.Elems = append(outer.Elems, inner)
			for _, spelled := range []string{"a.b", `a["b"]`, "a[0]", "a/b", "a.0", "a[b]", ".a.b", "a.#", "a[1]", `a["k"]`, "a.c"} {
				if c.G(2) == 0 {
					outer.Names = append(outer.Names, spelled)
					outer.Elems = append(outer.Elems, leaf)
				}
			}
			c.Probe("c19.spelled-paths")
		}
		t = outer
		switch c.G(4) {
		case 0:
			t = &TDesc{K: KList, Elem: outer}
		case 1:
			t = &TDesc{K: KTuple, Elems: []*TDesc{outer, tString}}
		}
		c.Probe("c19.confusable-paths")
	}
	o := GenOpts{Marks: c.G(3) != 0 || confusable, Unknown: c.G(3) != 0, Null: c.G(3) != 0, Refine: true, MaxLen: maxLen, Collide: c.G(4) == 0}
	if confusable {
		o.MarkDense = c.G(2) == 0
		depth = 4
	}
	if depth > 3 {
		o.MarkDense = c.G(2) == 1
		o.Unknown, o.Null = o.Unknown && c.G(2) == 0, o.Null && c.G(2) == 0
	}
	d := genValue(c, t, depth, o)
	stripSetMarks(d)
	dedupeSets(d, true)
	return d, d.Build()
}

func allMarksOf(d *VDesc) map[string]bool {
	m := map[string]bool{}
	d.AllMarks(m)
	return m
}

func marksSubset(a cty.ValueMarks, b map[string]bool) bool {
	for m := range a {
		if !b[fmt.Sprint(m)] {
			return false
		}
	}
	return true
}

func hasAllMarks(have cty.ValueMarks, want []string) bool {
	for _, m := range want {
		if _, ok := have[m]; !ok {
			return false
		}
	}
	return true
}

func simC19Walk(c *Ctx) {
	d, root := c19GenValue(c)
	observe(c, root, "C19:root")
	var nodes []mnode
	enumerate(d, "", nil, -1, false, false, &nodes)
	byKey := map[string]int{}
	for i, n := range nodes {
		if _, dup := byKey[n.key]; dup {
			c.Fail("C19", "harness", "harness-duplicate-path", "the model produced the path %s twice", n.key)
		}
		byKey[n.key] = i
	}
	c.Event("value %s (%d nodes)", d, len(nodes))
	c.AddShape(fmt.Sprintf("t=%s nodes=%d", d.T, len(nodes)))
	rootFP := fp(root)
	mode := c.G(10)

	// which nodes the model expects to be visited, given pruning
	prune := map[int]bool{}
	halt := -1
	switch mode {
	case 1:
		for k := 0; k < 1+c.F(3); k++ {
			prune[c.F(len(nodes))] = true
		}
		c.Fired("cb.prune")
	case 2:
		halt = c.F(len(nodes))
		c.Fired("cb.halt")
	}
	expected := map[int]bool{}
	var mark func(i int)
	children := map[int][]int{}
	for i, n := range nodes {
		if n.parent >= 0 {
			children[n.parent] = append(children[n.parent], i)
		}
	}
	mark = func(i int) {
		expected[i] = true
		if prune[i] {
			return
		}
		for _, ch := range children[i] {
			mark(ch)
		}
	}
	mark(0)

	// ---- Walk
	injected := errors.New("injected walk failure")
	seen := map[int]int{}
	var order []int
	halted := false
	type keptPath struct {
		p   cty.Path
		key string
	}
	var kept []keptPath // copies the callback keeps beyond its return (Path.Copy promises they are its own)
	checkKept := func(what string) {
		for _, k := range kept {
			if now := renderPath(k.p); now != k.key {
				c.Fail("C19", "kept-path-changed", "kept-path-changed:"+what, "a copy (Path.Copy) of the path %s reported, kept by the callback, reads %q after the traversal went on: it was %q", what, now, k.key)
			}
		}
		if len(kept) > 0 {
			c.Fired("cb.retain-copy")
		}
		kept = nil
	}
	err := cty.Walk(root, func(p cty.Path, v cty.Value) (bool, error) {
		pc := p.Copy()
		key := renderPath(pc)
		kept = append(kept, keptPath{pc, key})
		i, ok := byKey[key]
		if halted {
			c.Fail("C19", "walk-after-error", "walk-after-error", "Walk called the callback again (path %s) after the callback had returned an error", key)
		}
		if !ok {
			c.Fail("C19", "walk-foreign-path", "walk-foreign-path", "Walk reported the path %#v, which names no member of the value\nvalue: %s", pc, d)
		}
		seen[i]++
		order = append(order, i)
		n := nodes[i]
		if seen[i] > 1 {
			c.Fail("C19", "walk-visited-twice", "walk-visited-twice:"+kindNames[n.d.T.K], "Walk visited the member at %#v twice", pc)
		}
		if !expected[i] {
			c.Fail("C19", "walk-ignored-prune", "walk-ignored-prune", "Walk descended to %#v although the callback returned false for an ancestor", pc)
		}
		if n.parent >= 0 && seen[n.parent] == 0 {
			c.Fail("C19", "walk-child-before-parent", "walk-child-before-parent:"+kindNames[nodes[n.parent].d.T.K], "Walk visited %#v before its parent", pc)
		}
		observe(c, v, "Walk callback")
		if got, want := fp(v), fp(n.d.Build()); got != want {
			c.Fail("C19", "walk-wrong-member", "walk-wrong-member:"+kindNames[n.d.T.K], "Walk reported at %#v the value %s, the member there is %s", pc, safeGoString(v), n.d)
		}
		// the reported path leads back to the member
		if !n.underSet {
			c19CheckApply(c, pc, root, n, d, "Walk path")
		}
		if i == halt {
			halted = true
			return true, injected
		}
		return !prune[i], nil
	})
	c.API("Walk")
	if halt >= 0 && seen[halt] > 0 {
		if err != injected {
			c.Fail("C19", "walk-error-lost", "walk-error-lost", "the callback failed at %s but Walk returned %v", nodes[halt].key, err)
		}
	} else {
		if err != nil {
			c.Fail("C19", "walk-spurious-error", "walk-spurious-error", "Walk returned %v although no callback failed", err)
		}
		for i := range nodes {
			if expected[i] && seen[i] == 0 {
				c.Fail("C19", "walk-missed-member", "walk-missed-member:"+kindNames[nodes[i].d.T.K], "Walk never visited the member at %s (%s)\nvalue: %s", nodes[i].key, nodes[i].d, d)
			}
		}
	}
	if fp(root) != rootFP {
		c.Fail("C19", "walk-mutated", "walk-mutated", "walking changed the value")
	}
	checkKept("Walk")
	c.Event("walk mode %d visited %d of %d", mode, len(order), len(nodes))

	// ---- Transform
	switch mode {
	case 3, 4, 8: // replace one member (8: from the Enter side, before the member is traversed)
		if mode == 8 && c.G(3) == 0 {
			// ... or every member of one list / map of primitives, consistently, by structures of one other type:
			// the collection changes its element type, and what is traversed is what Enter returned
			var colls []int
			for i, x := range nodes {
				if (x.d.T.K == KList || x.d.T.K == KMap) && x.d.St == StKnown && len(x.d.Elems) > 0 && x.d.T.Elem.K <= KBool && !x.underSet && !x.inSet {
					ok := true
					for a := x.parent; a >= 0; a = nodes[a].parent {
						if k := nodes[a].d.T.K; k != KTuple && k != KObject {
							ok = false
						}
					}
					if ok {
						colls = append(colls, i)
					}
				}
			}
			if len(colls) > 0 {
				cn := nodes[colls[c.G(len(colls))]]
				replT := []*TDesc{{K: KObject, Names: []string{"a", "b"}, Elems: []*TDesc{tString, tNumber}}, {K: KList, Elem: tString}, {K: KTuple, Elems: []*TDesc{tBool, tString}},
					{K: KMap, Elem: tNumber}, {K: KObject, Names: []string{"k"}, Elems: []*TDesc{{K: KList, Elem: tString}}}}[c.G(5)]
				newRoot := cloneDesc(d)
				cur := newRoot
				for _, ix := range cn.idx {
					cur = cur.Elems[ix]
				}
				nt := *cur.T
				nt.Elem, nt.cached = replT, nil
				cur.T = &nt
				byKey := map[string]cty.Value{}
				for i := range cur.Elems {
					r := genValue(c, replT, 2, GenOpts{Unknown: true, Null: true, MaxLen: 2})
					r.stripMarksDeep()
					if r.St != StKnown && len(cur.Elems) > 1 {
						r.St, r.Ref = StNull, nil // (an unknown member next to typed ones would be fine too; keep the model simple)
					}
					cur.Elems[i] = r
					var sk string
					if cur.T.K == KList {
						sk = stepKeyIndex(i)
					} else {
						sk = stepKeyString(cur.Keys[i])
					}
					k := sk
					if cn.key != "" {
						k = cn.key + "/" + sk
					}
					byKey[k] = r.Build()
				}
				c.Fired("cb.replace")
				c.Probe("c19.replace-all-members-on-enter")
				c.Event("replace every member of %s by a %s", cn.key, replT)
				left := map[string]int{}
				res, terr := cty.TransformWithTransformer(root, &c19Transformer{
					enter: func(p cty.Path, v cty.Value) (cty.Value, error) {
						if rv, ok := byKey[renderPath(p)]; ok {
							return rv, nil
						}
						return v, nil
					},
					exit: func(p cty.Path, v cty.Value) (cty.Value, error) {
						left[renderPath(p)]++
						return v, nil
					}})
				c.API("TransformWithTransformer")
				if terr != nil {
					c.Fail("C19", "transform-spurious-error", "transform-spurious-error", "Transform returned %v although no callback failed", terr)
				}
				observe(c, res, "Transform")
				var after []mnode
				enumerate(newRoot, "", nil, -1, false, false, &after)
				for _, an := range after {
					if left[an.key] != 1 {
						c.Fail("C19", "transform-visit-count", "transform-visit-count:after-enter-replacement-of-all-members", "after Enter replaced every member of %q by a %s, the member at %q of the result was left %d times by the traversal (want once)\nresult: %s", cn.key, replT, an.key, left[an.key], newRoot)
					}
				}
				if want := newRoot.Build(); !sameModuloSetOrder(res, want) {
					c.Fail("C19", "transform-replace-disturbed", "transform-replace-all:"+kindNames[cn.d.T.K], "replacing every member of %q gave %s, want %s", cn.key, safeGoString(res), newRoot)
				}
				break
			}
		}
		ri := c.F(len(nodes))
		if c.G(4) == 0 {
			// prefer a direct member of a set, if there is one
			var ms []int
			for i, x := range nodes {
				if x.inSet {
					ms = append(ms, i)
				}
			}
			if len(ms) > 0 {
				ri = ms[c.G(len(ms))]
			}
		}
		n := nodes[ri]
		// (a replacement for a direct member of a set may carry marks too: building the set lifts them onto the set,
		// next to the marks the set carries itself - the library's own constructors are the model of that)
		markedSetMember := n.inSet && nodes[n.parent].parent < 0 || n.inSet && !nodes[n.parent].underSet
		markedSetMember = markedSetMember && c.G(2) == 0
		o := GenOpts{Marks: (!n.underSet && !n.inSet) || markedSetMember, MarkDense: markedSetMember, Unknown: true, Null: true, Refine: true, MaxLen: 2}
		replT := n.d.T
		structural := true // every enclosing value is a tuple or an object (a collection's members must keep one type)
		for a := n.parent; a >= 0; a = nodes[a].parent {
			if k := nodes[a].d.T.K; k != KTuple && k != KObject {
				structural = false
			}
		}
		if mode == 8 && structural && c.G(2) == 0 {
			// where the surrounding type allows it (the root, a tuple element, an object attribute), the replacement
			// has another type altogether - a leaf becomes a structure, a structure a leaf: what is traversed is
			// what Enter returned
			replT = genType(c, 2, GenOpts{})
			if replT.K <= KBool {
				replT = genType(c, 2, GenOpts{})
			}
			c.Probe("c19.replace-on-enter-other-type")
		}
		repl := genValue(c, replT, 2, o)
		stripSetMarks(repl)
		if (n.underSet || n.inSet) && !markedSetMember {
			repl.stripMarksDeep()
		}
		if markedSetMember {
			c.Probe("c19.replace-set-member-by-marked")
		}
		dedupeSets(repl, true)
		c.Fired("cb.replace")
		c.Event("replace member at %s by %s", n.key, repl)
		newRoot := cloneDesc(d)
		if len(n.idx) == 0 {
			newRoot = repl
		} else {
			cur := newRoot
			for _, ix := range n.idx[:len(n.idx)-1] {
				cur = cur.Elems[ix]
			}
			cur.Elems[n.idx[len(n.idx)-1]] = repl
			if markedSetMember {
				// what building a set does with the marks of its members: they end up on the set (whether or not the
				// member coalesces with an equal one)
				inModel := cloneDesc(repl)
				have := map[string]bool{}
				for _, m := range cur.Marks {
					have[m] = true
				}
				for _, m := range sortedKeysBool(allMarksOf(inModel)) {
					if !have[m] {
						cur.Marks = append(cur.Marks, m)
					}
				}
				inModel.stripMarksDeep()
				cur.Elems[n.idx[len(n.idx)-1]] = inModel
			}
		}
		replV := repl.Build()
		calls := 0
		var res cty.Value
		var terr error
		cb := func(p cty.Path, v cty.Value) (cty.Value, error) {
			if renderPath(p) == n.key {
				calls++
				return replV, nil
			}
			return v, nil
		}
		if mode == 3 {
			res, terr = cty.Transform(root, cb)
			c.API("Transform")
		} else if mode == 8 {
			left := map[string]int{}
			res, terr = cty.TransformWithTransformer(root, &c19Transformer{enter: cb, exit: func(p cty.Path, v cty.Value) (cty.Value, error) {
				left[renderPath(p)]++
				return v, nil
			}})
			c.API("TransformWithTransformer")
			c.Probe("c19.replace-on-enter")
			// the traversal continues into what Enter returned: every member of the value with the replacement in
			// place is left exactly once, and nothing else is
			withRepl := cloneDesc(newRoot)
			dedupeSets(withRepl, false)
			var after []mnode
			if !n.underSet && !n.inSet {
				// (a member of a set is reported under a path step holding the member as it was)
				enumerate(withRepl, "", nil, -1, false, false, &after)
			} else {
				left = map[string]int{}
			}
			want := map[string]bool{}
			for _, an := range after {
				want[an.key] = true
				if left[an.key] != 1 {
					c.Fail("C19", "transform-visit-count", "transform-visit-count:after-enter-replacement", "after Enter replaced the member at %q by %s, the member at %q of the result was left %d times by the traversal (want once)", n.key, repl, an.key, left[an.key])
				}
			}
			for _, k := range sortedKeys(left) {
				if !want[k] {
					c.Fail("C19", "transform-foreign-path", "transform-foreign-path:after-enter-replacement", "after Enter replaced the member at %q by %s, the traversal reported the path %q, which names no member of the result", n.key, repl, k)
				}
			}
		} else {
			res, terr = cty.TransformWithTransformer(root, &c19Transformer{exit: cb})
			c.API("TransformWithTransformer")
		}
		if terr != nil {
			c.Fail("C19", "transform-spurious-error", "transform-spurious-error", "Transform returned %v although no callback failed", terr)
		}
		if calls != 1 {
			c.Fail("C19", "transform-visit-count", "transform-visit-count", "the member at %s was offered to the callback %d times", n.key, calls)
		}
		observe(c, res, "Transform")
		dedupeSets(newRoot, false)
		want := newRoot.Build()
		if !sameModuloSetOrder(res, want) {
			c.Fail("C19", "transform-replace-disturbed", "transform-replace:"+kindNames[n.d.T.K],
				"replacing the member at %s by %s gave %s, want the original with exactly that member replaced: %s", n.key, repl, safeGoString(res), newRoot)
		}
	case 5: // callback fails
		hi := c.F(len(nodes))
		c.Fired("cb.halt")
		after := false
		res, terr := cty.Transform(root, func(p cty.Path, v cty.Value) (cty.Value, error) {
			if after {
				c.Fail("C19", "transform-after-error", "transform-after-error", "Transform called the callback again after it had returned an error")
			}
			if renderPath(p) == nodes[hi].key {
				after = true
				return v, injected
			}
			return v, nil
		})
		c.API("Transform")
		if terr != injected {
			c.Fail("C19", "transform-error-lost", "transform-error-lost", "the callback failed at %s but Transform returned (%s, %v)", nodes[hi].key, safeGoString(res), terr)
		}
	case 9: // the Enter callback fails
		hi := c.F(len(nodes))
		c.Fired("cb.halt")
		after := false
		spy := func(side string, fail bool) func(p cty.Path, v cty.Value) (cty.Value, error) {
			return func(p cty.Path, v cty.Value) (cty.Value, error) {
				if after {
					c.Fail("C19", "transform-after-error", "transform-after-error:"+side, "TransformWithTransformer called %s again after Enter had returned an error", side)
				}
				if fail && renderPath(p) == nodes[hi].key {
					after = true
					return v, injected
				}
				return v, nil
			}
		}
		res, terr := cty.TransformWithTransformer(root, &c19Transformer{enter: spy("Enter", true), exit: spy("Exit", false)})
		c.API("TransformWithTransformer")
		if terr != injected {
			c.Fail("C19", "transform-error-lost", "transform-error-lost:enter", "Enter failed at %s but TransformWithTransformer returned (%s, %v)", nodes[hi].key, safeGoString(res), terr)
		}
	default: // identity, with both callbacks spied
		plainForm := mode == 6 // the plain callback form sees only the exits
		enter := map[int]int{}
		exit := map[int]int{}
		tr := &c19Transformer{
			enter: func(p cty.Path, v cty.Value) (cty.Value, error) {
				key := renderPath(p)
				kept = append(kept, keptPath{p.Copy(), key})
				i, ok := byKey[key]
				if !ok {
					c.Fail("C19", "transform-foreign-path", "transform-foreign-path", "Transform reported the path %#v, which names no member", p.Copy())
				}
				enter[i]++
				if nodes[i].parent >= 0 && (enter[nodes[i].parent] == 0 || exit[nodes[i].parent] > 0) {
					c.Fail("C19", "transform-order", "transform-order:enter", "Transform entered %s outside its parent's visit", key)
				}
				if got, want := fp(v), fp(nodes[i].d.Build()); got != want {
					c.Fail("C19", "transform-wrong-member", "transform-wrong-member:"+kindNames[nodes[i].d.T.K], "Transform offered at %#v the value %s, the member there is %s", p.Copy(), safeGoString(v), nodes[i].d)
				}
				return v, nil
			},
			exit: func(p cty.Path, v cty.Value) (cty.Value, error) {
				key := renderPath(p)
				kept = append(kept, keptPath{p.Copy(), key})
				i, ok := byKey[key]
				if !ok {
					c.Fail("C19", "transform-foreign-path", "transform-foreign-path", "Transform reported the path %#v, which names no member", p.Copy())
				}
				exit[i]++
				if !plainForm && enter[i] != 1 {
					c.Fail("C19", "transform-order", "transform-order:exit-before-enter", "Transform left %s without entering it exactly once", key)
				}
				for _, ch := range children[i] {
					if exit[ch] != 1 {
						c.Fail("C19", "transform-order", "transform-order:parent-before-child", "Transform finished %s before its member %s", key, nodes[ch].key)
					}
				}
				observe(c, v, "Transform callback")
				if !sameModuloSetOrder(v, nodes[i].d.Build()) {
					c.Fail("C19", "transform-wrong-member", "transform-rebuilt-differs:"+kindNames[nodes[i].d.T.K], "under an identity transformation the rebuilt member at %s is %s, want %s", key, safeGoString(v), nodes[i].d)
				}
				return v, nil
			},
		}
		var res cty.Value
		var terr error
		if mode == 6 {
			res, terr = cty.Transform(root, tr.exit)
			c.API("Transform")
		} else {
			res, terr = cty.TransformWithTransformer(root, tr)
			c.API("TransformWithTransformer")
		}
		if terr != nil {
			c.Fail("C19", "transform-spurious-error", "transform-spurious-error", "identity Transform returned %v", terr)
		}
		observe(c, res, "Transform")
		checkKept("Transform")
		if !sameModuloSetOrder(res, root) {
			c.Fail("C19", "transform-identity-differs", "transform-identity:"+kindNames[d.T.K], "an identity transformation returned %s for %s", safeGoString(res), d)
		}
		for i := range nodes {
			if exit[i] != 1 {
				c.Fail("C19", "transform-visit-count", "transform-visit-count:"+kindNames[nodes[i].d.T.K], "identity Transform visited %s %d times (Walk visits it once)", nodes[i].key, exit[i])
			}
		}
	}
	if fp(root) != rootFP {
		c.Fail("C19", "transform-mutated", "transform-mutated", "transforming changed the original value")
	}

	// ---- marks by path
	u, pvm := root.UnmarkDeepWithPaths()
	c.API("UnmarkDeepWithPaths")
	observe(c, u, "UnmarkDeepWithPaths")
	if u.ContainsMarked() {
		c.Fail("C19", "unmark-incomplete", "unmark-incomplete", "UnmarkDeepWithPaths left marks in %s", safeGoString(u))
	}
	plain := cloneDesc(d)
	plain.stripMarksDeep()
	if !sameModuloSetOrder(u, plain.Build()) {
		c.Fail("C19", "unmark-changed-value", "unmark-changed-value", "UnmarkDeepWithPaths changed more than the marks: %s vs %s", safeGoString(u), plain)
	}
	gotPVM := map[string]string{}
	for _, x := range pvm {
		k := renderPath(x.Path)
		if _, dup := gotPVM[k]; dup {
			c.Fail("C19", "unmark-paths", "unmark-path-twice", "UnmarkDeepWithPaths reported the path %s twice", k)
		}
		gotPVM[k] = marksKey(x.Marks)
	}
	nMarked := 0
	for _, n := range nodes {
		if len(n.d.Marks) == 0 {
			continue
		}
		nMarked++
		want := marksKey(cty.NewValueMarks(toIfaces(n.d.Marks)...))
		if gotPVM[n.key] != want {
			c.Fail("C19", "unmark-paths", "unmark-path-marks", "UnmarkDeepWithPaths reports marks %q at %s, the member there carries %s", gotPVM[n.key], n.key, want)
		}
	}
	if len(gotPVM) != nMarked {
		c.Fail("C19", "unmark-paths", "unmark-path-extra", "UnmarkDeepWithPaths reported %d marked paths, the value has %d marked members", len(gotPVM), nMarked)
	}
	if nMarked > 0 {
		c.Probe("c19.marked-members")
		// re-apply in a drawn order
		perm := append([]cty.PathValueMarks(nil), pvm...)
		for q := len(perm) - 1; q > 0; q-- {
			w := c.G(q + 1)
			perm[q], perm[w] = perm[w], perm[q]
		}
		back := u.MarkWithPaths(perm)
		c.API("MarkWithPaths")
		observe(c, back, "MarkWithPaths")
		if !sameModuloSetOrder(back, root) {
			c.Fail("C19", "remark-differs", "remark-differs", "removing marks with their paths and re-applying them gave %s, the original is %s", safeGoString(back), d)
		}
		// the recorded (path, marks) list is the caller's: it is still what UnmarkDeepWithPaths reported, and
		// applying it again (the same slice, then the slice it was copied from) restores the original again
		for round, list := range [][]cty.PathValueMarks{perm, pvm} {
			for _, x := range list {
				if k := renderPath(x.Path); gotPVM[k] != marksKey(x.Marks) {
					c.Fail("C19", "remark-list-changed", "remark-list-changed", "after MarkWithPaths the caller's list names %s with marks %s; UnmarkDeepWithPaths had reported %q there", k, marksKey(x.Marks), gotPVM[k])
				}
			}
			again := u.MarkWithPaths(list)
			c.API("MarkWithPaths")
			if !sameModuloSetOrder(again, root) {
				c.Fail("C19", "remark-differs", "remark-again-differs", "re-applying the same recorded marks a second time (round %d) gave %s, the original is %s", round+2, safeGoString(again), d)
			}
		}
		// a drawn subset of the recorded entries marks exactly those members
		if len(pvm) > 1 {
			keep := map[string]bool{}
			var sub []cty.PathValueMarks
			for _, x := range pvm {
				if c.G(2) == 0 {
					sub = append(sub, x)
					keep[renderPath(x.Path)] = true
				}
			}
			part := cloneDesc(d)
			var partNodes []mnode
			enumerate(part, "", nil, -1, false, false, &partNodes)
			for _, n := range partNodes {
				if !keep[n.key] {
					n.d.Marks = nil
				}
			}
			got := u.MarkWithPaths(sub)
			c.API("MarkWithPaths")
			observe(c, got, "MarkWithPaths")
			if !sameModuloSetOrder(got, part.Build()) {
				c.Fail("C19", "remark-differs", "remark-subset-differs", "re-applying %d of the %d recorded entries gave %s, want %s", len(sub), len(pvm), safeGoString(got), part)
			}
			c.Probe("c19.remark-subset")
		}
	}
	_, dm := root.UnmarkDeep()
	all := allMarksOf(d)
	if len(dm) != len(all) || !marksSubset(dm, all) {
		c.Fail("C19", "unmarkdeep-marks", "unmarkdeep-marks", "UnmarkDeep reports marks %s, the members carry %v", marksKey(dm), all)
	}

	// ---- UnknownAsNull against the model
	nulled := cloneDesc(plain)
	var nullify func(x *VDesc)
	nullify = func(x *VDesc) {
		if x.St == StUnknown {
			x.St, x.Ref = StNull, nil
		}
		for _, e := range x.Elems {
			nullify(e)
		}
	}
	nullify(nulled)
	dedupeSets(nulled, false)
	uan := cty.UnknownAsNull(u)
	c.API("UnknownAsNull")
	observe(c, uan, "UnknownAsNull")
	if !sameModuloSetOrder(uan, nulled.Build()) {
		c.Fail("C19", "unknown-as-null", "unknown-as-null", "UnknownAsNull(%s) = %s, want %s", plain, safeGoString(uan), nulled)
	}
	if len(nodes) > 1 {
		c.NonTrivial()
	}
}

func toIfaces(ss []string) []interface{} {
	out := make([]interface{}, len(ss))
	for i, s := range ss {
		out[i] = s
	}
	return out
}

type c19Transformer struct {
	enter func(cty.Path, cty.Value) (cty.Value, error)
	exit  func(cty.Path, cty.Value) (cty.Value, error)
}

func (t *c19Transformer) Enter(p cty.Path, v cty.Value) (cty.Value, error) {
	if t.enter == nil {
		return v, nil
	}
	return t.enter(p, v)
}
func (t *c19Transformer) Exit(p cty.Path, v cty.Value) (cty.Value, error) {
	if t.exit == nil {
		return v, nil
	}
	return t.exit(p, v)
}

// c19CheckApply applies a path that the model says is valid and compares the result with the member.
func c19CheckApply(c *Ctx, p cty.Path, root cty.Value, n mnode, rootDesc *VDesc, what string) {
	var got cty.Value
	var err error
	var pan interface{}
	func() {
		defer func() { pan = recover() }()
		got, err = p.Apply(root)
	}()
	c.API("Path.Apply")
	if pan != nil {
		c.Fail("C19", "apply-panic", "apply-panic", "%s %#v: Apply panicked: %v", what, p, pan)
	}
	if err != nil {
		c.Fail("C19", "apply-rejected-valid", "apply-rejected-valid:"+kindNames[n.d.T.K], "%s %#v names an existing member but Apply failed: %v\nvalue: %s", what, p, err, rootDesc)
	}
	c19CheckApplied(c, p, got, n, rootDesc, what)
}

// c19CheckApplied compares what the library returned for the member at p with the model's member there.
func c19CheckApplied(c *Ctx, p cty.Path, got cty.Value, n mnode, rootDesc *VDesc, what string) {
	observe(c, got, "Path.Apply")
	gu, gm := got.UnmarkDeep()
	plain := cloneDesc(n.d)
	plain.stripMarksDeep()
	if fp(gu) != fp(plain.Build()) {
		c.Fail("C19", "apply-wrong-member", "apply-wrong-member:"+kindNames[n.d.T.K], "%s %#v applied to the root gives %s, the member there is %s", what, p, safeGoString(got), n.d)
	}
	own := allMarksOf(n.d)
	for m := range own {
		if _, ok := gm[m]; !ok {
			c.Fail("C19", "apply-lost-marks", "apply-lost-marks", "%s %#v: the member's mark %q is missing from the result of Apply", what, p, m)
		}
	}
	if !marksSubset(gm, allMarksOf(rootDesc)) {
		c.Fail("C19", "apply-invented-marks", "apply-invented-marks", "%s %#v: Apply produced marks %s that the value does not carry", what, p, marksKey(gm))
	}
}

// ---------------------------------------------------------------------------
// valid and damaged paths

func simC19Apply(c *Ctx) {
	d, root := c19GenValue(c)
	var nodes []mnode
	enumerate(d, "", nil, -1, false, false, &nodes)
	c.Event("value %s", d)
	c.AddShape(fmt.Sprintf("apply t=%s", d.T))
	nPaths := 4 + c.G(8)
	for q := 0; q < nPaths; q++ {
		// build a path step by step through the model, possibly damaging one step
		cur := d
		var p cty.Path
		var curIdx []int
		valid := true
		undecided := false // stepping through an unknown: only "no panic" is required
		steps := c.G(5)
		damageAt := -1
		if c.G(2) == 1 {
			damageAt = c.G(steps + 1)
		}
		why := ""
		for s := 0; s <= steps && valid && !undecided; s++ {
			if s == steps && damageAt != s {
				break
			}
			damaged := s == damageAt
			type opt struct {
				step  cty.PathStep
				child int
				ok    bool
				why   string
			}
			var opts []opt
			if cur.St == StUnknown && (cur.T.K == KList || cur.T.K == KMap || cur.T.K == KSet) && c.G(2) == 0 {
				// an unknown collection: whether a key of the right kind names a member is open, but a step of the wrong
				// kind for the collection's type can never name one - whatever the collection turns out to be
				switch cur.T.K {
				case KList:
					opts = []opt{{cty.IndexStep{Key: cty.StringVal("a")}, -1, false, "string key into an unknown list"}, {cty.GetAttrStep{Name: "a"}, -1, false, "attribute of an unknown list"}, {cty.IndexStep{Key: cty.True}, -1, false, "bool key into an unknown list"}}
				case KMap:
					opts = []opt{{cty.IndexStep{Key: cty.NumberIntVal(0)}, -1, false, "number key into an unknown map"}, {cty.GetAttrStep{Name: "a"}, -1, false, "attribute of an unknown map"}}
				default:
					opts = []opt{{cty.IndexStep{Key: cty.NumberIntVal(0)}, -1, false, "index into an unknown set"}, {cty.IndexStep{Key: cty.StringVal("a")}, -1, false, "key into an unknown set"}, {cty.GetAttrStep{Name: "a"}, -1, false, "attribute of an unknown set"}}
				}
				o := opts[c.G(len(opts))]
				p = append(p, o.step)
				valid, why = false, o.why
				c.Fired("path.damage")
				c.Probe("c19.wrong-kind-step-into-unknown-collection")
				break
			}
			if cur.St == StUnknown {
				undecided = true
			}
			nullOrLeaf := cur.St != StKnown
			switch {
			case nullOrLeaf, cur.T.K <= KBool, cur.T.K == KCapsule, cur.T.K == KDynamic:
				// any step from here must fail
				opts = append(opts, opt{cty.GetAttrStep{Name: "a"}, -1, false, "step through a null or primitive"},
					opt{cty.IndexStep{Key: cty.NumberIntVal(0)}, -1, false, "index into a null or primitive"},
					opt{cty.IndexStep{Key: cty.StringVal("a")}, -1, false, "key into a null or primitive"})
			case cur.T.K == KList || cur.T.K == KTuple:
				for i := range cur.Elems {
					opts = append(opts, opt{cty.IndexStep{Key: cty.NumberIntVal(int64(i))}, i, true, ""})
				}
				if damaged || len(opts) == 0 {
					opts = []opt{{cty.IndexStep{Key: cty.NumberIntVal(int64(len(cur.Elems)))}, -1, false, "index one past the end"},
						{cty.IndexStep{Key: cty.NumberIntVal(-1)}, -1, false, "negative index"},
						{cty.IndexStep{Key: cty.NumberFloatVal(0.5)}, -1, false, "fractional index"},
						{cty.IndexStep{Key: cty.MustParseNumberVal("0.0000000000000000000000000000000000001")}, -1, false, "index a hair above a whole number"},
						{cty.IndexStep{Key: cty.MustParseNumberVal("0.99999999999999999999999999999999999999")}, -1, false, "index a hair below a whole number"},
						{cty.IndexStep{Key: cty.MustParseNumberVal("1e-400")}, -1, false, "index too small for float64 to tell from zero"},
						{cty.IndexStep{Key: cty.MustParseNumberVal("-1e-400")}, -1, false, "negative index too small for float64 to tell from zero"},
						{cty.IndexStep{Key: cty.StringVal("0")}, -1, false, "string key into a sequence"},
						{cty.GetAttrStep{Name: "a"}, -1, false, "attribute of a sequence"},
						{cty.IndexStep{Key: cty.True}, -1, false, "bool key"}}
				}
			case cur.T.K == KMap:
				for i, k := range cur.Keys {
					opts = append(opts, opt{cty.IndexStep{Key: cty.StringVal(k)}, i, true, ""})
				}
				if damaged || len(opts) == 0 {
					opts = []opt{{cty.IndexStep{Key: cty.StringVal("missing-key")}, -1, false, "missing key"},
						{cty.IndexStep{Key: cty.NumberIntVal(0)}, -1, false, "number key into a map"},
						{cty.GetAttrStep{Name: "a"}, -1, false, "attribute of a map"}}
				}
			case cur.T.K == KObject:
				for i, k := range cur.Keys {
					opts = append(opts, opt{cty.GetAttrStep{Name: nfc(k)}, i, true, ""})
				}
				if damaged || len(opts) == 0 {
					opts = []opt{{cty.GetAttrStep{Name: "no-such-attribute"}, -1, false, "missing attribute"},
						{cty.IndexStep{Key: cty.StringVal("a")}, -1, false, "string key into an object"},
						{cty.IndexStep{Key: cty.NumberIntVal(0)}, -1, false, "index into an object"}}
				}
			case cur.T.K == KSet:
				// paths cannot address set members
				opts = []opt{{cty.IndexStep{Key: cty.NumberIntVal(0)}, -1, false, "index into a set"}, {cty.IndexStep{Key: cty.StringVal("a")}, -1, false, "key into a set"}}
				if len(cur.Elems) > 0 {
					opts = append(opts, opt{cty.IndexStep{Key: cur.Elems[0].Build()}, -1, false, "member as key into a set"})
				}
			}
			o := opts[c.G(len(opts))]
			p = append(p, o.step)
			if !o.ok {
				valid = false
				why = o.why
				c.Fired("path.damage")
				break
			}
			curIdx = append(curIdx, o.child)
			cur = cur.Elems[o.child]
		}
		if !valid && c.G(2) == 0 {
			p = append(p, cty.GetAttrStep{Name: "beyond"}) // the invalid step is not the last one
		}
		c.Event("path %d: %#v valid=%t undecided=%t %s", q, p, valid, undecided, why)
		// the same path through the library's path constructors names the same steps
		if len(p) > 0 {
			var p2 cty.Path
			switch st := p[0].(type) {
			case cty.GetAttrStep:
				p2 = cty.GetAttrPath(st.Name)
			case cty.IndexStep:
				plainKey := st.Key.IsKnown() && !st.Key.IsNull() && !st.Key.IsMarked()
				switch {
				case !plainKey:
					p2 = cty.IndexPath(st.Key)
				case st.Key.Type() == cty.String && c.G(2) == 0:
					p2 = cty.IndexStringPath(st.Key.AsString())
				case st.Key.Type() == cty.Number && st.Key.AsBigFloat().IsInt() && st.Key.AsBigFloat().MantExp(nil) < 40 && c.G(2) == 0:
					i64, _ := st.Key.AsBigFloat().Int64()
					p2 = cty.IndexIntPath(int(i64))
				default:
					p2 = cty.IndexPath(st.Key)
				}
			}
			for _, st := range p[1:] {
				switch st := st.(type) {
				case cty.GetAttrStep:
					p2 = p2.GetAttr(st.Name)
				case cty.IndexStep:
					p2 = p2.Index(st.Key)
				}
			}
			c.API("Path constructors")
			if !p2.Equals(p) || !p.Equals(p2) || !p2.HasPrefix(p[:len(p)-1]) || len(p2) != len(p) {
				c.Fail("C19", "path-derivation", "path-constructors", "the path built with IndexPath/GetAttrPath and Index/GetAttr is %#v, the steps given were %#v (Equals %t/%t, HasPrefix %t)", p2, p, p2.Equals(p), p.Equals(p2), p2.HasPrefix(p[:len(p)-1]))
			}
			if c.G(2) == 0 {
				p = p2
			}
		}
		if undecided {
			// only no panic below a known container is promised; unknown tuples with keys are a documented trap
			continue
		}
		// LastStep: the member the last step is applied to, and that step; it succeeds exactly when every
		// step before the last names an existing member
		{
			prefixValid := valid || len(curIdx) == len(p)-1
			var lv cty.Value
			var ls cty.PathStep
			var lerr error
			pan := catch(func() { lv, ls, lerr = p.LastStep(root) })
			c.API("Path.LastStep")
			switch {
			case pan != nil:
				c.Fail("C19", "apply-panic", "laststep-panic", "LastStep of %#v panicked: %v\nvalue: %s", p, pan, d)
			case len(p) == 0:
				if lerr != nil || ls != nil || fp(lv) != fp(root) {
					c.Fail("C19", "laststep", "laststep-empty", "LastStep of the empty path returned (%s, %#v, %v), want the value itself and no step", safeGoString(lv), ls, lerr)
				}
			case prefixValid:
				if lerr != nil {
					c.Fail("C19", "laststep", "laststep-rejected-valid", "LastStep of %#v failed with %v although every step before the last names an existing member\nvalue: %s", p, lerr, d)
				} else {
					parent := d
					for _, ix := range curIdx[:len(p)-1] {
						parent = parent.Elems[ix]
					}
					c19CheckApplied(c, p[:len(p)-1], lv, mnode{d: parent, idx: curIdx[:len(p)-1]}, d, "LastStep")
					if !(cty.Path{ls}).Equals(p[len(p)-1:]) {
						c.Fail("C19", "laststep", "laststep-step", "LastStep of %#v returned the step %#v", p, ls)
					}
					c.Probe("c19.laststep-valid")
				}
			default:
				if lerr == nil {
					c.Fail("C19", "apply-accepted-invalid", "laststep-accepted-invalid:"+why, "LastStep of %#v succeeded with %s although a step before the last is invalid (%s)\nvalue: %s", p, safeGoString(lv), why, d)
				}
			}
		}
		if valid {
			n := mnode{d: cur, idx: curIdx}
			c19CheckApply(c, p, root, n, d, "generated path")
			c.Probe("c19.apply-valid")
			continue
		}
		var got cty.Value
		var err error
		var pan interface{}
		func() {
			defer func() { pan = recover() }()
			got, err = p.Apply(root)
		}()
		c.API("Path.Apply")
		if pan != nil {
			c.Fail("C19", "apply-panic", "apply-panic:"+why, "Apply of the invalid path %#v (%s) panicked: %v\nvalue: %s", p, why, pan, d)
		}
		if err == nil {
			c.Fail("C19", "apply-accepted-invalid", "apply-accepted-invalid:"+why, "Apply of %#v succeeded with %s although the path is invalid (%s)\nvalue: %s", p, safeGoString(got), why, d)
		}
		c.Probe("c19.apply-invalid-rejected")
	}
	c.NonTrivial()
}

// ---------------------------------------------------------------------------
// PathSet histories

type pstep struct {
	kind int // 0 attr, 1 number index, 2 string index
	name string
	num  NumDesc
}

func (s pstep) key() string {
	switch s.kind {
	case 0:
		return "a:" + s.name
	case 1:
		return "n:" + numKey(s.num)
	}
	return "s:" + nfc(s.name)
}

func (s pstep) step() cty.PathStep {
	switch s.kind {
	case 0:
		return cty.GetAttrStep{Name: s.name}
	case 1:
		return cty.IndexStep{Key: s.num.Value()}
	}
	return cty.IndexStep{Key: cty.StringVal(s.name)}
}

type mpath struct {
	steps []pstep
	p     cty.Path
	key   string
}

// genMPath builds a path through the library's own deriving constructors (GetAttr, Index,
// IndexInt, IndexString), often as a sibling of an earlier path of the pool - derived from the
// same parent object - so that a derivation which disturbs its parent or a sibling shows up as a
// pool path that no longer matches its model.
func genMPath(c *Ctx, pool []*mpath) *mpath {
	n := c.G(4)
	if c.G(8) == 0 {
		n = 4 + c.G(2)
	}
	m := &mpath{}
	var keys []string
	if len(pool) > 0 && c.G(2) == 0 {
		parent := pool[c.G(len(pool))]
		cut := len(parent.steps)
		if cut > 0 && c.G(3) == 0 {
			cut = c.G(cut + 1)
		}
		m.steps = append(m.steps, parent.steps[:cut]...)
		m.p = parent.p[:cut] // the parent's own storage, as a caller deriving siblings would hold it
		for _, s := range m.steps {
			keys = append(keys, s.key())
		}
		n = 1 + c.G(2)
	}
	for i := 0; i < n; i++ {
		var s pstep
		switch c.G(3) {
		case 0:
			s = pstep{kind: 0, name: []string{"a", "b", "#", "\u00e9", "ab", ""}[c.G(6)]}
		case 1:
			s = pstep{kind: 1, num: []NumDesc{{Mode: NumParse, Text: "0"}, {Mode: NumInt, Text: "1"}, {Mode: NumFloat, Text: "1"}, {Mode: NumParse, Text: "2"}, {Mode: NumFloat, Text: "0.5"}, {Mode: NumParse, Text: "0.5"}, {Mode: NumNegZero},
				// one decimal that no binary precision holds exactly, at four precisions: equal keys, different bits
				{Mode: NumParse, Text: "0.1"}, {Mode: NumFloat, Text: "0.1"}, {Mode: NumPrec, Prec: 24, Text: "0.1"}, {Mode: NumPrec, Prec: 200, Text: "0.1"},
				{Mode: NumPrec, Prec: 24, Text: "-2.25"}, {Mode: NumParse, Text: "123456789012345678901234567890"}}[c.G(13)]}
		case 2:
			s = pstep{kind: 2, name: []string{"a", "#", "é", "é", "k", ""}[c.G(6)]}
		}
		m.steps = append(m.steps, s)
		switch s.kind {
		case 0:
			m.p = m.p.GetAttr(s.name)
		case 1:
			if bi, isInt := new(big.Int).SetString(s.num.Text, 10); (s.num.Mode == NumInt || s.num.Mode == NumParse) && isInt && bi.IsInt64() {
				m.p = m.p.IndexInt(int(bi.Int64()))
				s.num = NumDesc{Mode: NumInt, Text: s.num.Text}
				m.steps[len(m.steps)-1] = s
			} else {
				m.p = m.p.Index(s.num.Value())
			}
		default:
			if c.G(2) == 0 {
				m.p = m.p.IndexString(s.name)
			} else {
				m.p = m.p.Index(cty.StringVal(s.name))
			}
		}
		keys = append(keys, s.key())
	}
	m.key = strings.Join(keys, "/")
	return m
}

func simC19PathSets(c *Ctx) {
	nPaths := 3 + c.G(18)
	var pool []*mpath
	for i := 0; i < nPaths; i++ {
		pool = append(pool, genMPath(c, pool))
	}
	c.AddShape(fmt.Sprintf("pathsets pool=%d", nPaths))

	byRender := func(p cty.Path) string {
		// canonical rendering of a path the library returned, through the model's rules
		var keys []string
		for _, s := range p {
			switch st := s.(type) {
			case cty.GetAttrStep:
				keys = append(keys, "a:"+st.Name)
			case cty.IndexStep:
				if st.Key.Type() == cty.Number {
					f := st.Key.AsBigFloat()
					if f.IsInt() {
						i, _ := f.Int(nil)
						keys = append(keys, "n:"+i.String())
					} else {
						keys = append(keys, "n:"+f.Text('f', -1))
					}
				} else {
					keys = append(keys, "s:"+st.Key.AsString())
				}
			}
		}
		return strings.Join(keys, "/")
	}
	checkPool := func(when string) {
		for i, mp := range pool {
			if got := byRender(mp.p); got != mp.key {
				c.Fail("C19", "path-derivation", "path-derivation", "%s: pool path %d was derived as %s but now reads %s (deriving another path from the same parent disturbed it)", when, i, mp.key, got)
			}
		}
	}
	checkPool("after deriving the pool")
	sets := []cty.PathSet{cty.NewPathSet()}
	models := []map[string]bool{{}}
	put := func(s cty.PathSet, m map[string]bool) int {
		if len(sets) < 4 {
			sets, models = append(sets, s), append(models, m)
			return len(sets) - 1
		}
		i := c.G(4)
		sets[i], models[i] = s, m
		return i
	}
	check := func(i int, what string) {
		s, m := sets[i], models[i]
		l := s.List()
		c.API("PathSet.List")
		got := map[string]int{}
		for _, p := range l {
			got[byRender(p)]++
		}
		for k, n := range got {
			if n > 1 {
				c.Fail("C19", "pathset-duplicate", "pathset-duplicate", "after %s path set %d lists the path %s %d times", what, i, k, n)
			}
			if !m[k] {
				c.Fail("C19", "pathset-spurious", "pathset-spurious", "after %s path set %d lists %s, which the mathematical set does not contain", what, i, k)
			}
		}
		for k := range m {
			if got[k] == 0 {
				c.Fail("C19", "pathset-missing", "pathset-missing", "after %s path set %d lacks %s", what, i, k)
			}
		}
		if s.Empty() != (len(m) == 0) {
			c.Fail("C19", "pathset-empty", "pathset-empty", "after %s path set %d reports Empty=%t with %d members", what, i, s.Empty(), len(m))
		}
		for k := 0; k < 3; k++ {
			mp := pool[c.G(len(pool))]
			if has := s.Has(mp.p); has != m[mp.key] {
				c.Fail("C19", "pathset-membership", "pathset-has", "after %s path set %d Has(%s) = %t, the mathematical set says %t", what, i, mp.key, has, m[mp.key])
			}
		}
	}
	cloneM := func(m map[string]bool) map[string]bool {
		n := map[string]bool{}
		for k := range m {
			n[k] = true
		}
		return n
	}
	steps := 10 + c.G(50)
	for st := 0; st < steps; st++ {
		switch c.G(10) {
		case 0, 1, 2:
			i := c.G(len(sets))
			mp := pool[c.G(len(pool))]
			sets[i].Add(mp.p.Copy())
			c.API("PathSet.Add")
			if models[i][mp.key] {
				c.Probe("c19.pathset-add-present")
			}
			models[i][mp.key] = true
			c.Event("step %d: ps%d.Add(%s)", st, i, mp.key)
			check(i, "Add")
		case 3:
			i := c.G(len(sets))
			mp := pool[c.G(len(pool))]
			sets[i].AddAllSteps(mp.p.Copy())
			c.API("PathSet.AddAllSteps")
			for n := 1; n <= len(mp.steps); n++ {
				var ks []string
				for _, s := range mp.steps[:n] {
					ks = append(ks, s.key())
				}
				models[i][strings.Join(ks, "/")] = true
			}
			c.Event("step %d: ps%d.AddAllSteps(%s)", st, i, mp.key)
			check(i, "AddAllSteps")
		case 4, 5:
			i := c.G(len(sets))
			mp := pool[c.G(len(pool))]
			sets[i].Remove(mp.p)
			c.API("PathSet.Remove")
			if models[i][mp.key] {
				c.Probe("c19.pathset-remove-present")
			}
			delete(models[i], mp.key)
			c.Event("step %d: ps%d.Remove(%s)", st, i, mp.key)
			check(i, "Remove")
		case 6, 7:
			i, j := c.G(len(sets)), c.G(len(sets))
			op := c.G(4)
			var r cty.PathSet
			m := map[string]bool{}
			switch op {
			case 0:
				r = sets[i].Union(sets[j])
				for k := range models[i] {
					m[k] = true
				}
				for k := range models[j] {
					m[k] = true
				}
			case 1:
				r = sets[i].Intersection(sets[j])
				for k := range models[i] {
					if models[j][k] {
						m[k] = true
					}
				}
			case 2:
				r = sets[i].Subtract(sets[j])
				for k := range models[i] {
					if !models[j][k] {
						m[k] = true
					}
				}
			case 3:
				r = sets[i].SymmetricDifference(sets[j])
				for k := range models[i] {
					if !models[j][k] {
						m[k] = true
					}
				}
				for k := range models[j] {
					if !models[i][k] {
						m[k] = true
					}
				}
			}
			name := []string{"Union", "Intersection", "Subtract", "SymmetricDifference"}[op]
			c.API("PathSet." + name)
			k := put(r, m)
			c.Event("step %d: ps%d = ps%d.%s(ps%d)", st, k, i, name, j)
			check(k, name)
			check(i, name+" (receiver)")
			check(j, name+" (argument)")
		case 8:
			i, j := c.G(len(sets)), c.G(len(sets))
			eq := sets[i].Equal(sets[j])
			c.API("PathSet.Equal")
			want := len(models[i]) == len(models[j])
			for k := range models[i] {
				if !models[j][k] {
					want = false
				}
			}
			if eq != want {
				c.Fail("C19", "pathset-equal", "pathset-equal", "ps%d.Equal(ps%d) = %t, the mathematical sets are equal = %t", i, j, eq, want)
			}
			if want && i != j {
				c.Probe("c19.pathset-equal-distinct-objects")
			}
		case 9:
			// build a set from the listed members of another, in another order
			i := c.G(len(sets))
			l := sets[i].List()
			for q := len(l) - 1; q > 0; q-- {
				w := c.G(q + 1)
				l[q], l[w] = l[w], l[q]
			}
			k := put(cty.NewPathSet(l...), cloneM(models[i]))
			c.API("NewPathSet")
			c.Event("step %d: ps%d = NewPathSet(shuffled list of ps%d)", st, k, i)
			check(k, "NewPathSet")
		}
	}
	// path equality and prefixes against the model
	for k := 0; k < 8; k++ {
		a, b := pool[c.G(len(pool))], pool[c.G(len(pool))]
		if eq := a.p.Equals(b.p); eq != (a.key == b.key) {
			c.Fail("C19", "path-equals", "path-equals", "Path.Equals(%s, %s) = %t", a.key, b.key, eq)
		}
		wantPrefix := len(b.steps) <= len(a.steps)
		if wantPrefix {
			for i := range b.steps {
				if a.steps[i].key() != b.steps[i].key() {
					wantPrefix = false
				}
			}
		}
		if hp := a.p.HasPrefix(b.p); hp != wantPrefix {
			c.Fail("C19", "path-prefix", "path-prefix", "Path(%s).HasPrefix(%s) = %t, want %t", a.key, b.key, hp, wantPrefix)
		}
	}
	checkPool("after the history")
	c.NonTrivial()
	_ = sort.Strings
}

// sameModuloSetOrder is raw equality (types, marks, refinements, members) in which the members
// of a set are compared as a multiset: the iteration order of sets holding unknowns or capsules
// depends on insertion order, which a rebuilt value need not share.
func sameModuloSetOrder(a, b cty.Value) bool {
	if !a.Type().Equals(b.Type()) {
		return false
	}
	ua, ma := a.Unmark()
	ub, mb := b.Unmark()
	if marksKey(ma) != marksKey(mb) {
		return false
	}
	if ua.IsNull() || ub.IsNull() || !ua.IsKnown() || !ub.IsKnown() {
		return fp(ua) == fp(ub)
	}
	ty := ua.Type()
	switch {
	case ty.IsSetType():
		as, bs := ua.AsValueSlice(), ub.AsValueSlice()
		if len(as) != len(bs) {
			return false
		}
		used := make([]bool, len(bs))
	next:
		for _, x := range as {
			for j, y := range bs {
				if !used[j] && sameModuloSetOrder(x, y) {
					used[j] = true
					continue next
				}
			}
			return false
		}
		return true
	case ty.IsListType() || ty.IsTupleType():
		as, bs := ua.AsValueSlice(), ub.AsValueSlice()
		if len(as) != len(bs) {
			return false
		}
		for i := range as {
			if !sameModuloSetOrder(as[i], bs[i]) {
				return false
			}
		}
		return true
	case ty.IsMapType() || ty.IsObjectType():
		am, bm := ua.AsValueMap(), ub.AsValueMap()
		if len(am) != len(bm) {
			return false
		}
		for k, x := range am {
			y, ok := bm[k]
			if !ok || !sameModuloSetOrder(x, y) {
				return false
			}
		}
		return true
	}
	return ua.RawEquals(ub)
}

func sortedKeysBool(m map[string]bool) []string {
	out := make([]string, 0, len(m))
	for k := range m {
		out = append(out, k)
	}
	sort.Strings(out)
	return out
}
