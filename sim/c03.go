package main

// C03 — equality is a coherent equivalence that agrees with hashing and sets.
// DESIGN.md §5-C03. Two simulations:
//   sets:  seeded histories of ValueSet / set-value operations (add, remove, copy, algebra,
//          rebuild in permuted order, wrap/unwrap, stdlib set functions) over a collision-biased
//          population, against a model set keyed by the documented equality; the equivalence
//          laws are cross-invariants over the population;
//   laws:  pairs and triples over a mixed-type population (all kinds, nulls, unknowns, marks).

import (
	"fmt"
	"math/big"
	"sort"
	"strconv"
	"strings"

	"github.com/zclconf/go-cty/cty"
	"github.com/zclconf/go-cty/cty/function"
	"github.com/zclconf/go-cty/cty/function/stdlib"
)

// canonKey is the checker's own canonical key of a description under the documented equality:
// numbers by exact integer value or else shortest decimal text, ±0 alike; strings after NFC;
// structures member-wise; sets as sets. exact is false when an unknown occurs anywhere: such a
// value is never equal to anything, itself included.
func canonKey(v *VDesc) (key string, exact bool) {
	switch v.St {
	case StNull:
		return "~", true
	case StUnknown:
		return "?", false
	}
	switch v.T.K {
	case KBool:
		if v.B {
			return "T", true
		}
		return "F", true
	case KNumber:
		return numKey(v.Num), true
	case KString:
		return strconv.Quote(nfc(v.S)), true
	case KCapsule:
		if v.T.Cap != 1 {
			return fmt.Sprintf("c%d#%d", v.T.Cap, v.Cap), true
		}
		return fmt.Sprintf("c1#%d", v.Cap%8), true
	case KList, KTuple:
		parts := make([]string, len(v.Elems))
		ex := true
		for i, e := range v.Elems {
			k, x := canonKey(e)
			parts[i] = k
			ex = ex && x
		}
		return "[" + strings.Join(parts, ",") + "]", ex
	case KSet:
		seen := map[string]bool{}
		var parts []string
		ex := true
		for _, e := range v.Elems {
			k, x := canonKey(e)
			ex = ex && x
			if !seen[k] || !x {
				seen[k] = true
				parts = append(parts, k)
			}
		}
		sort.Strings(parts)
		return "s{" + strings.Join(parts, ",") + "}", ex
	case KMap, KObject:
		parts := make([]string, len(v.Elems))
		ex := true
		for i, e := range v.Elems {
			k, x := canonKey(e)
			parts[i] = strconv.Quote(nfc(v.Keys[i])) + ":" + k
			ex = ex && x
		}
		sort.Strings(parts)
		return "{" + strings.Join(parts, ",") + "}", ex
	}
	return "?", false
}

func numKey(d NumDesc) string {
	f := d.Float()
	if f.IsInf() {
		if f.Signbit() {
			return "-Inf"
		}
		return "+Inf"
	}
	if f.IsInt() {
		i, _ := f.Int(nil)
		return i.String()
	}
	return f.Text('f', -1)
}

type mset struct {
	exact   map[string]bool
	inexact int
}

func newMset() *mset { return &mset{exact: map[string]bool{}} }

func (m *mset) clone() *mset {
	n := newMset()
	for k := range m.exact {
		n.exact[k] = true
	}
	n.inexact = m.inexact
	return n
}

func (m *mset) size() int { return len(m.exact) + m.inexact }

func (m *mset) sig() string {
	ks := make([]string, 0, len(m.exact))
	for k := range m.exact {
		ks = append(ks, k)
	}
	sort.Strings(ks)
	return strings.Join(ks, "\x00")
}

func (m *mset) equalTo(o *mset) bool {
	if len(m.exact) != len(o.exact) {
		return false
	}
	for k := range m.exact {
		if !o.exact[k] {
			return false
		}
	}
	return true
}

type c03Member struct {
	d     *VDesc
	v     cty.Value
	key   string
	exact bool
	fp    string
}

type c03Run struct {
	c        *Ctx
	ety      *TDesc
	pop      []*c03Member
	byFP     map[string]int
	capsule  bool
	vs       []cty.ValueSet
	vsm      []*mset
	sv       []cty.Value
	svm      []*mset
	orders   map[string]string // model signature -> observed key sequence
	ordersBy map[string]string
}

var c03ElemTypes = []*TDesc{
	tNumber, tNumber, tNumber, tString, tString, tBool,
	{K: KList, Elem: tNumber}, {K: KList, Elem: tString},
	{K: KTuple, Elems: []*TDesc{tNumber, tString}},
	{K: KObject, Names: []string{"a", "b"}, Elems: []*TDesc{tNumber, tString}},
	{K: KMap, Elem: tNumber}, {K: KSet, Elem: tNumber},
	{K: KCapsule, Cap: 0}, {K: KCapsule, Cap: 1},
	{K: KObject, Names: []string{"a"}, Elems: []*TDesc{{K: KList, Elem: tNumber}}},
}

func (r *c03Run) member() *c03Member { return r.pop[r.c.G(len(r.pop))] }

// keysOf maps the members a set reports back to population members (by internal fingerprint) and
// returns their canonical keys in reported order.
func (r *c03Run) keysOf(vals []cty.Value, what string) (keys []string, inexact int) {
	for _, v := range vals {
		i, ok := r.byFP[fp(v)]
		if !ok {
			r.c.Fail("C03", "foreign-member", "foreign-member:"+kindNames[r.ety.K],
				"%s reports the member %s, which was never added to any set", what, safeGoString(v))
		}
		m := r.pop[i]
		if !m.exact {
			inexact++
			keys = append(keys, "?")
			continue
		}
		keys = append(keys, m.key)
	}
	return
}

func (r *c03Run) checkContents(vals []cty.Value, m *mset, what string) {
	c := r.c
	keys, inexact := r.keysOf(vals, what)
	seen := map[string]bool{}
	for i, k := range keys {
		if k == "?" {
			continue
		}
		if seen[k] {
			c.Fail("C03", "duplicate-member", "duplicate:"+kindNames[r.ety.K],
				"%s holds two equal members (canonical key %s): %s\nmembers: %s", what, k, safeGoString(vals[i]), renderVals(vals))
		}
		seen[k] = true
		if !m.exact[k] {
			c.Fail("C03", "spurious-member", "spurious:"+kindNames[r.ety.K],
				"%s holds %s (key %s), which the mathematical set does not contain\nmodel: %s\nmembers: %s", what, safeGoString(vals[i]), k, m.sig(), renderVals(vals))
		}
	}
	for k := range m.exact {
		if !seen[k] {
			c.Fail("C03", "missing-member", "missing:"+kindNames[r.ety.K],
				"%s lacks the member with key %s, which the mathematical set contains\nmembers: %s", what, k, renderVals(vals))
		}
	}
	if inexact != m.inexact {
		c.Fail("C03", "unknown-member-count", "unknown-count:"+kindNames[r.ety.K],
			"%s holds %d members that contain unknowns; %d were added (unknown members are never equal to anything, so each add must be kept and no remove may match)", what, inexact, m.inexact)
	}
	// the library's own verdict, independently of the model: no two members are Equals-true
	n := len(vals)
	pairs := 0
	for i := 0; i < n && pairs < 60; i++ {
		for j := i + 1; j < n && pairs < 60; j++ {
			pairs++
			if eq := vals[i].Equals(vals[j]); eq.IsKnown() && eq.True() {
				c.Fail("C03", "duplicate-member", "duplicate-equals:"+kindNames[r.ety.K],
					"%s holds %s and %s, and Equals says they are equal", what, safeGoString(vals[i]), safeGoString(vals[j]))
			}
		}
	}
	// iteration order depends only on the members (capsule-free, wholly known)
	if !r.capsule && m.inexact == 0 && len(keys) > 1 {
		sig := m.sig()
		seq := strings.Join(keys, "\x00")
		if old, ok := r.orders[sig]; ok {
			if old != seq {
				c.Fail("C03", "order-depends-on-history", "order:"+kindNames[r.ety.K],
					"two sets with the same members iterate in different orders\n%s: %s\n%s: %s", r.ordersBy[sig], strings.ReplaceAll(old, "\x00", " , "), what, strings.ReplaceAll(seq, "\x00", " , "))
			}
			c.Probe("c03.order-compared")
		} else {
			r.orders[sig] = seq
			r.ordersBy[sig] = what
		}
	}
}

func renderVals(vals []cty.Value) string {
	parts := make([]string, len(vals))
	for i, v := range vals {
		parts[i] = safeGoString(v)
	}
	s := strings.Join(parts, ", ")
	if len(s) > 900 {
		s = s[:900] + "…"
	}
	return s
}

func (r *c03Run) checkVS(i int, what string) {
	s, m := r.vs[i], r.vsm[i]
	if got := s.Length(); got != m.size() {
		r.c.Fail("C03", "wrong-length", "length:"+kindNames[r.ety.K], "%s: ValueSet %d has Length %d, the mathematical set has %d members\nmembers: %s", what, i, got, m.size(), renderVals(s.Values()))
	}
	r.checkContents(s.Values(), m, fmt.Sprintf("ValueSet %d after %s", i, what))
	// membership
	for k := 0; k < 4; k++ {
		mb := r.member()
		has := s.Has(mb.v)
		want := mb.exact && m.exact[mb.key]
		if has != want {
			r.c.Fail("C03", "wrong-membership", "has:"+kindNames[r.ety.K], "%s: ValueSet %d Has(%s) = %t, the mathematical set says %t\nmembers: %s", what, i, mb.d, has, want, renderVals(s.Values()))
		}
	}
}

func (r *c03Run) checkSV(i int, what string) {
	c := r.c
	v, m := r.sv[i], r.svm[i]
	observe(c, v, "C03:"+what)
	if v.IsNull() || !v.IsKnown() {
		c.Fail("C03", "set-not-known", "set-not-known", "%s: set value %d is not a known set: %s", what, i, safeGoString(v))
	}
	if got := v.LengthInt(); got != m.size() {
		c.Fail("C03", "wrong-length", "lengthint:"+kindNames[r.ety.K], "%s: set value %d has LengthInt %d, the mathematical set has %d members\nvalue: %s", what, i, got, m.size(), safeGoString(v))
	}
	vals := v.AsValueSlice()
	r.checkContents(vals, m, fmt.Sprintf("set value %d after %s", i, what))
	// ElementIterator agrees with AsValueSlice
	k := 0
	for it := v.ElementIterator(); it.Next(); k++ {
		_, ev := it.Element()
		if k >= len(vals) || fp(ev) != fp(vals[k]) {
			c.Fail("C03", "iteration-unstable", "iteration-unstable", "%s: ElementIterator and AsValueSlice of set value %d disagree at position %d", what, i, k)
		}
	}
	if m.inexact == 0 {
		if l := v.Length(); !l.IsKnown() || l.AsBigFloat().Cmp(newFloatInt(m.size())) != 0 {
			c.Fail("C03", "wrong-length", "length-value:"+kindNames[r.ety.K], "%s: Length() of wholly-known set value %d is %s, want %d", what, i, safeGoString(l), m.size())
		}
	}
	for q := 0; q < 3; q++ {
		mb := r.member()
		he := v.HasElement(mb.v)
		switch {
		case !mb.exact:
			if he.IsKnown() && he.True() {
				c.Fail("C03", "wrong-membership", "haselement-unknown-true", "%s: HasElement(%s) is True for a member containing unknowns", what, mb.d)
			}
		case m.exact[mb.key]:
			if !he.IsKnown() || !he.True() {
				c.Fail("C03", "wrong-membership", "haselement:"+kindNames[r.ety.K], "%s: set value %d HasElement(%s) = %s but the member is present\nvalue: %s", what, i, mb.d, safeGoString(he), safeGoString(v))
			}
		default:
			if he.IsKnown() && he.True() {
				c.Fail("C03", "wrong-membership", "haselement:"+kindNames[r.ety.K], "%s: set value %d HasElement(%s) = True but the member is absent\nvalue: %s", what, i, mb.d, safeGoString(v))
			}
			if m.inexact == 0 && !(he.IsKnown() && he.False()) {
				c.Fail("C03", "wrong-membership", "haselement-not-false:"+kindNames[r.ety.K], "%s: wholly-known set value %d HasElement(%s) = %s but the member is absent", what, i, mb.d, safeGoString(he))
			}
		}
	}
}

func simC03Sets(c *Ctx) {
	hugeNumbers = true
	defer func() { hugeNumbers = false }()
	r := &c03Run{c: c, byFP: map[string]int{}, orders: map[string]string{}, ordersBy: map[string]string{}}
	r.ety = c03ElemTypes[c.G(len(c03ElemTypes))]
	r.capsule = r.ety.HasCapsule()
	unknowns := c.G(4) == 3
	o := GenOpts{Null: true, Unknown: unknowns, Refine: true, Collide: true, MaxLen: 2}
	if c.G(3) == 0 {
		// one bucket, several members the set order can tell apart: a family of truly colliding strings / integers
		o.Fam = 1 + c.G(10)
		c.Probe("c03.true-collision-family")
	}
	if c.G(5) == 0 {
		o.Long = []int{300, 600, 1100, 5000}[c.G(4)]
		c.Probe("c03.long-twin-strings")
	}
	if c.G(8) == 0 {
		o.LongColl = []int{33, 34, 40, 64, 100, 150}[c.G(6)]
		c.Probe("c03.long-twin-collections")
	}
	if c.G(4) == 0 {
		numTripleFocus = c.G(18)
		defer func() { numTripleFocus = -1 }()
		c.Probe("c03.number-triple-in-focus")
	}
	n := 4 + c.G(20)
	if c.G(6) == 0 {
		// large sets: sorting and bucket code changes behaviour with size (library sorts switch algorithm
		// above a dozen elements), and only many members make several of them unordered among themselves
		n = 24 + c.G(30)
		o.Unknown = true
		c.Probe("c03.large-population")
	}
	if o.LongColl > 0 && n > 9 {
		n = 9 // (cost: every member is rendered and hashed again and again)
	}
	twins := injectionMembers(r.ety, c.G(8))
	for i := 0; i < n; i++ {
		var d *VDesc
		if twins != nil && i < 2 {
			d = twins[i] // two different members that a hash over an unescaped rendering cannot tell apart
			c.Probe("c03.injection-twins")
		} else if i > 0 && c.G(4) == 3 {
			// the same member again in another representation (precision, spelling)
			d = reRepresent(c, r.pop[c.G(i)].d)
		} else {
			d = genValue(c, r.ety, 2, o)
		}
		d.stripMarksDeep()
		m := &c03Member{d: d, v: d.Build()}
		m.key, m.exact = canonKey(d)
		m.fp = fp(m.v)
		if _, dup := r.byFP[m.fp]; !dup {
			r.byFP[m.fp] = len(r.pop)
		}
		r.pop = append(r.pop, m)
		observe(c, m.v, "C03:population")
	}
	c.AddShape(fmt.Sprintf("ety=%s pop=%d unk=%t", r.ety, n, unknowns))
	c.Event("element type %s, %d members", r.ety, n)
	ety := r.ety.Cty()
	r.vs = append(r.vs, cty.NewValueSet(ety))
	r.vsm = append(r.vsm, newMset())
	// swarm: a random subset of step kinds per run
	var enabled []int
	for k := 0; k < 12; k++ {
		if c.G(4) != 0 {
			enabled = append(enabled, k)
		}
	}
	enabled = append(enabled, 0)
	steps := 8 + c.G(50)
	pickVS := func() int { return c.G(len(r.vs)) }
	putVS := func(s cty.ValueSet, m *mset) int {
		if len(r.vs) < 4 {
			r.vs, r.vsm = append(r.vs, s), append(r.vsm, m)
			return len(r.vs) - 1
		}
		i := c.G(4)
		r.vs[i], r.vsm[i] = s, m
		return i
	}
	putSV := func(v cty.Value, m *mset) int {
		if len(r.sv) < 4 {
			r.sv, r.svm = append(r.sv, v), append(r.svm, m)
			return len(r.sv) - 1
		}
		i := c.G(4)
		r.sv[i], r.svm[i] = v, m
		return i
	}
	algebra := func(op int, a, b *mset) *mset {
		out := newMset()
		switch op {
		case 0: // union
			for k := range a.exact {
				out.exact[k] = true
			}
			for k := range b.exact {
				out.exact[k] = true
			}
			out.inexact = a.inexact + b.inexact
		case 1: // intersection
			for k := range a.exact {
				if b.exact[k] {
					out.exact[k] = true
				}
			}
		case 2: // subtract
			for k := range a.exact {
				if !b.exact[k] {
					out.exact[k] = true
				}
			}
			out.inexact = a.inexact
		case 3: // symmetric difference
			for k := range a.exact {
				if !b.exact[k] {
					out.exact[k] = true
				}
			}
			for k := range b.exact {
				if !a.exact[k] {
					out.exact[k] = true
				}
			}
			out.inexact = a.inexact + b.inexact
		}
		return out
	}
	algNames := []string{"Union", "Intersection", "Subtract", "SymmetricDifference"}
	for st := 0; st < steps; st++ {
		kind := enabled[c.G(len(enabled))]
		addTo := func(i int, mb *c03Member) {
			r.vs[i].Add(mb.v)
			c.API("ValueSet.Add")
			if mb.exact {
				if r.vsm[i].exact[mb.key] {
					c.Probe("c03.add-equal-member")
				}
				r.vsm[i].exact[mb.key] = true
			} else {
				r.vsm[i].inexact++
				c.Probe("c03.add-unknown-member")
			}
			c.Event("step %d: vs%d.Add(%s)", st, i, mb.d)
		}
		// a fresh set (a copy, an algebra result) and the sets it was made from diverge at once: each gets a
		// member of its own, then all of them are read again (whatever they still share shows now)
		diverge := func(fresh int, sources ...int) {
			if c.G(2) != 0 {
				return
			}
			// (members the set does not hold yet, where there are any: an Add that changes nothing shows nothing)
			absent := func(i int) *c03Member {
				for try := 0; try < 6; try++ {
					if mb := r.member(); !mb.exact || !r.vsm[i].exact[mb.key] {
						return mb
					}
				}
				return r.member()
			}
			addTo(fresh, absent(fresh))
			for _, s := range sources {
				if s != fresh {
					addTo(s, absent(s))
				}
			}
			r.checkVS(fresh, "diverging Add (fresh set)")
			for _, s := range sources {
				r.checkVS(s, "diverging Add (source set)")
			}
			c.Probe("c03.diverge-at-once")
		}
		switch kind {
		case 0, 1: // Add
			i := pickVS()
			mb := r.member()
			addTo(i, mb)
			r.checkVS(i, fmt.Sprintf("Add(%s)", mb.d))
		case 2: // Remove
			i := pickVS()
			mb := r.member()
			r.vs[i].Remove(mb.v)
			c.API("ValueSet.Remove")
			if mb.exact {
				if r.vsm[i].exact[mb.key] {
					c.Probe("c03.remove-present")
				}
				delete(r.vsm[i].exact, mb.key)
			}
			c.Event("step %d: vs%d.Remove(%s)", st, i, mb.d)
			r.checkVS(i, fmt.Sprintf("Remove(%s)", mb.d))
		case 3: // Copy, then both diverge later
			i := pickVS()
			j := putVS(r.vs[i].Copy(), r.vsm[i].clone())
			c.API("ValueSet.Copy")
			c.Fired("helper.fork")
			c.Event("step %d: vs%d = vs%d.Copy()", st, j, i)
			r.checkVS(j, "Copy")
			diverge(j, i)
		case 4: // algebra on ValueSets
			i, j := pickVS(), pickVS()
			if i == j && len(r.vs) > 1 && c.G(2) == 0 {
				j = (i + 1) % len(r.vs) // two different sets more often than chance gives with few of them
			}
			if c.G(4) == 0 {
				// one operand is a new, empty set (the edge every shortcut is written for)
				e := putVS(cty.NewValueSet(ety), newMset())
				if c.G(2) == 0 {
					j = e
				} else {
					i = e
				}
				c.Probe("c03.algebra-with-empty-set")
			}
			op := c.G(4)
			var res cty.ValueSet
			switch op {
			case 0:
				res = r.vs[i].Union(r.vs[j])
			case 1:
				res = r.vs[i].Intersection(r.vs[j])
			case 2:
				res = r.vs[i].Subtract(r.vs[j])
			case 3:
				res = r.vs[i].SymmetricDifference(r.vs[j])
			}
			c.API("ValueSet." + algNames[op])
			m := algebra(op, r.vsm[i], r.vsm[j])
			if i == j {
				// a set combined with itself: its unknown-containing members are the same objects
				// on both sides but still never match; the model above already says so
				c.Probe("c03.algebra-with-itself")
			}
			k := putVS(res, m)
			c.Event("step %d: vs%d = vs%d.%s(vs%d)", st, k, i, algNames[op], j)
			r.checkVS(k, algNames[op])
			r.checkVS(i, algNames[op]+" (receiver)")
			r.checkVS(j, algNames[op]+" (argument)")
			diverge(k, i, j)
		case 5: // SetVal of a drawn multiset in two different orders
			cnt := 1 + c.G(8)
			idx := make([]int, cnt)
			for q := range idx {
				idx[q] = c.G(len(r.pop))
			}
			perm := append([]int(nil), idx...)
			for q := len(perm) - 1; q > 0; q-- {
				w := c.G(q + 1)
				perm[q], perm[w] = perm[w], perm[q]
			}
			m := newMset()
			build := func(ix []int) cty.Value {
				vals := make([]cty.Value, len(ix))
				for q, x := range ix {
					vals[q] = r.pop[x].v
				}
				return cty.SetVal(vals)
			}
			for _, x := range idx {
				if r.pop[x].exact {
					m.exact[r.pop[x].key] = true
				} else {
					m.inexact++
				}
			}
			a, b := build(idx), build(perm)
			c.API("SetVal")
			c.Fired("perm.rebuild")
			k := putSV(a, m)
			c.Event("step %d: sv%d = SetVal(%v), rebuilt as SetVal(%v)", st, k, idx, perm)
			r.checkSV(k, "SetVal")
			observe(c, b, "C03:SetVal")
			r.checkContents(b.AsValueSlice(), m, "SetVal of the permuted inputs")
			if m.inexact == 0 {
				if eq := a.Equals(b); !eq.IsKnown() || !eq.True() {
					c.Fail("C03", "permutation-changes-set", "perm-equals:"+kindNames[r.ety.K], "SetVal of the same inputs in two orders gives sets that are not Equals: %s vs %s", safeGoString(a), safeGoString(b))
				}
				if !r.capsule && !a.RawEquals(b) {
					c.Fail("C03", "permutation-changes-set", "perm-rawequals:"+kindNames[r.ety.K], "SetVal of the same inputs in two orders gives sets that are not RawEquals: %s vs %s", safeGoString(a), safeGoString(b))
				}
				if a.Hash() != b.Hash() {
					c.Fail("C03", "equal-different-hash", "hash-set:"+kindNames[r.ety.K], "two equal sets built from the same inputs in different orders hash differently: %s vs %s", safeGoString(a), safeGoString(b))
				}
			}
		case 6: // wrap
			i := pickVS()
			k := putSV(cty.SetValFromValueSet(r.vs[i]), r.vsm[i].clone())
			c.API("SetValFromValueSet")
			c.Event("step %d: sv%d = SetValFromValueSet(vs%d)", st, k, i)
			r.checkSV(k, "SetValFromValueSet")
		case 7: // unwrap
			if len(r.sv) == 0 {
				continue
			}
			i := c.G(len(r.sv))
			k := putVS(r.sv[i].AsValueSet(), r.svm[i].clone())
			c.API("Value.AsValueSet")
			c.Fired("helper.fork")
			c.Event("step %d: vs%d = sv%d.AsValueSet()", st, k, i)
			r.checkVS(k, "AsValueSet")
		case 8: // stdlib set functions on wrapped values
			if len(r.sv) == 0 {
				continue
			}
			i, j := c.G(len(r.sv)), c.G(len(r.sv))
			op := c.G(4)
			f := []function.Function{stdlib.SetUnionFunc, stdlib.SetIntersectionFunc, stdlib.SetSubtractFunc, stdlib.SetSymmetricDifferenceFunc}[op]
			res, err := f.Call([]cty.Value{r.sv[i], r.sv[j]})
			c.API("stdlib.set" + algNames[op])
			c.Event("step %d: stdlib %s(sv%d, sv%d) err=%v", st, algNames[op], i, j, err != nil)
			if err != nil {
				c.Fail("C03", "set-function-error", "stdlib-error:"+algNames[op], "stdlib %s on two sets of %s failed: %v", algNames[op], r.ety, err)
			}
			observe(c, res, "stdlib.set"+algNames[op])
			if r.svm[i].inexact == 0 && r.svm[j].inexact == 0 {
				if !res.IsKnown() {
					c.Fail("C03", "set-function-unknown", "stdlib-unknown:"+algNames[op], "stdlib %s of two wholly-known sets is not known: %s", algNames[op], safeGoString(res))
				}
				k := putSV(res, algebra(op, r.svm[i], r.svm[j]))
				r.checkSV(k, "stdlib "+algNames[op])
			}
		case 9: // Equals / RawEquals between set values against the model
			if len(r.sv) < 2 {
				continue
			}
			i, j := c.G(len(r.sv)), c.G(len(r.sv))
			a, b := r.sv[i], r.sv[j]
			ma, mb := r.svm[i], r.svm[j]
			c.API("Value.Equals(set)")
			eq := a.Equals(b)
			observe(c, eq, "Value.Equals")
			if ma.inexact == 0 && mb.inexact == 0 {
				want := ma.equalTo(mb)
				if !eq.IsKnown() || eq.True() != want {
					c.Fail("C03", "set-equality", "set-equals:"+kindNames[r.ety.K], "sets sv%d and sv%d: Equals = %s, the mathematical sets are equal = %t\n%s\n%s", i, j, safeGoString(eq), want, safeGoString(a), safeGoString(b))
				}
				if want && a.Hash() != b.Hash() {
					c.Fail("C03", "equal-different-hash", "hash-set:"+kindNames[r.ety.K], "equal sets hash differently: %s vs %s", safeGoString(a), safeGoString(b))
				}
				raw := a.RawEquals(b)
				if raw && !want {
					c.Fail("C03", "set-equality", "set-rawequals:"+kindNames[r.ety.K], "sets sv%d and sv%d are RawEquals but hold different members", i, j)
				}
				if !raw && want && !r.capsule {
					c.Fail("C03", "set-equality", "set-rawequals-false:"+kindNames[r.ety.K], "sets sv%d and sv%d hold the same members and are Equals, but RawEquals is false\n%s\n%s", i, j, safeGoString(a), safeGoString(b))
				}
			}
		case 10: // re-read everything alive
			for i := range r.vs {
				r.checkVS(i, "re-read")
			}
			for i := range r.sv {
				r.checkSV(i, "re-read")
			}
		case 11: // rebuild a ValueSet's contents in another order through Add
			i := pickVS()
			vals := r.vs[i].Values()
			for q := len(vals) - 1; q > 0; q-- {
				w := c.G(q + 1)
				vals[q], vals[w] = vals[w], vals[q]
			}
			ns := cty.NewValueSet(ety)
			for _, v := range vals {
				ns.Add(v)
			}
			c.Fired("perm.rebuild")
			k := putVS(ns, r.vsm[i].clone())
			c.Event("step %d: vs%d = re-added members of vs%d in another order", st, k, i)
			r.checkVS(k, "rebuild in another order")
		}
	}
	for i := range r.vs {
		if cty.VerifSetMaxBucket(r.vs[i]) >= 3 {
			c.Probe("c03.bucket-collision>=3")
		}
		if cty.VerifSetMaxBucket(r.vs[i]) >= 2 {
			c.Probe("c03.bucket-collision>=2")
		}
	}
	c03Laws(c, r.pop, r.ety)
	c.NonTrivial()
}

func newFloatInt(n int) *big.Float { return new(big.Float).SetInt64(int64(n)) }

// c03Laws checks the equivalence laws over sampled pairs and triples of a population of one type.
func c03Laws(c *Ctx, pop []*c03Member, ety *TDesc) {
	n := len(pop)
	pair := func(a, b *c03Member) {
		c.API("Value.Equals")
		eq := a.v.Equals(b.v)
		eq2 := b.v.Equals(a.v)
		observe(c, eq, "Value.Equals")
		if fp(eq) != fp(eq2) {
			c.Fail("C03", "equals-asymmetric", "equals-asymmetric:"+kindNames[ety.K], "Equals is not symmetric: %s.Equals(%s) = %s but the converse is %s", a.d, b.d, safeGoString(eq), safeGoString(eq2))
		}
		ra, rb := a.v.RawEquals(b.v), b.v.RawEquals(a.v)
		if ra != rb {
			c.Fail("C03", "rawequals-asymmetric", "rawequals-asymmetric:"+kindNames[ety.K], "RawEquals is not symmetric on %s and %s: %t vs %t", a.d, b.d, ra, rb)
		}
		if a.exact && b.exact {
			want := a.key == b.key
			if !eq.IsKnown() || eq.True() != want {
				c.Fail("C03", "equals-wrong", "equals-wrong:"+kindNames[ety.K], "%s.Equals(%s) = %s, the documented equality says %t (keys %s / %s)", a.d, b.d, safeGoString(eq), want, a.key, b.key)
			}
			if ra != want {
				c.Fail("C03", "equals-rawequals-disagree", "rawequals-wrong:"+kindNames[ety.K], "on the wholly known %s and %s Equals is %t but RawEquals is %t", a.d, b.d, want, ra)
			}
			if want {
				c.Probe("c03.equal-pair")
				if a.fp != b.fp {
					c.Probe("c03.equal-pair-different-representation")
				}
				if ha, hb := a.v.Hash(), b.v.Hash(); ha != hb {
					c.Fail("C03", "equal-different-hash", "hash:"+kindNames[ety.K], "%s and %s are equal but hash differently (%d vs %d)", a.d, b.d, ha, hb)
				}
			}
			if ety.K == KNumber && a.d.St == StKnown && b.d.St == StKnown {
				lt, gt := a.v.LessThan(b.v), a.v.GreaterThan(b.v)
				cnt := 0
				for _, x := range []cty.Value{lt, eq, gt} {
					if !x.IsKnown() {
						c.Fail("C03", "trichotomy", "trichotomy-unknown", "comparison of two known numbers %s and %s is unknown", a.d, b.d)
					}
					if x.True() {
						cnt++
					}
				}
				if cnt != 1 {
					c.Fail("C03", "trichotomy", "trichotomy", "for %s and %s: LessThan=%t Equals=%t GreaterThan=%t (exactly one must hold)", a.d, b.d, lt.True(), eq.True(), gt.True())
				}
				// the checker's own ordering, through math/big on the canonical values
				cmp := canonNum(a.d.Num).Cmp(canonNum(b.d.Num))
				if want {
					cmp = 0
				}
				// Which of two unequal numbers is the smaller may be decided on the exact binary values or
				// on the decimal renderings equality uses (they differ only when a low-precision number
				// lies between another number and its own rendering); either is accepted, nothing else.
				raw := a.d.Num.Float().Cmp(b.d.Num.Float())
				if want {
					raw = 0
				}
				okCanon := (cmp < 0) == lt.True() && (cmp > 0) == gt.True()
				okRaw := (raw < 0) == lt.True() && (raw > 0) == gt.True()
				if !okCanon && !okRaw {
					c.Fail("C03", "trichotomy", "order-wrong", "for %s and %s: LessThan=%t GreaterThan=%t but the numbers compare %d", a.d, b.d, lt.True(), gt.True(), cmp)
				}
			}
		} else if eq.IsKnown() && eq.True() {
			c.Fail("C03", "equals-wrong", "equals-true-with-unknown", "%s.Equals(%s) is True although an unknown is involved", a.d, b.d)
		}
	}
	for i := 0; i < n; i++ {
		if !pop[i].v.RawEquals(pop[i].v) {
			c.Fail("C03", "rawequals-irreflexive", "rawequals-irreflexive:"+kindNames[ety.K], "%s is not RawEquals to itself", pop[i].d)
		}
	}
	np := 10 + c.G(10)
	for k := 0; k < np; k++ {
		pair(pop[c.G(n)], pop[c.G(n)])
	}
	for k := 0; k < 8; k++ {
		a, b, d := pop[c.G(n)], pop[c.G(n)], pop[c.G(n)]
		if a.v.RawEquals(b.v) && b.v.RawEquals(d.v) && !a.v.RawEquals(d.v) {
			c.Fail("C03", "rawequals-intransitive", "rawequals-intransitive:"+kindNames[ety.K], "RawEquals is not transitive: %s ~ %s ~ %s but not %s ~ %s", a.d, b.d, d.d, a.d, d.d)
		}
		// Equals-true is transitive as well (it is what set membership rests on)
		t := func(x, y *c03Member) bool { e := x.v.Equals(y.v); return e.IsKnown() && e.True() }
		if t(a, b) && t(b, d) && !t(a, d) {
			c.Fail("C03", "equals-intransitive", "equals-intransitive:"+kindNames[ety.K], "Equals is not transitive: %s = %s = %s but not %s = %s", a.d, b.d, d.d, a.d, d.d)
		}
	}
}

// simC03Laws: pairs and triples over a mixed population (several types, nulls, unknowns, marks).
func simC03Laws(c *Ctx) {
	o := GenOpts{Null: true, Unknown: true, Refine: true, Marks: true, Collide: true, Capsule: true, MaxLen: 2}
	n := 6 + c.G(14)
	type mixed struct {
		d *VDesc
		v cty.Value
	}
	var pop []mixed
	base := genType(c, 2, GenOpts{Capsule: true})
	for i := 0; i < n; i++ {
		t := base
		if c.G(3) == 0 {
			t = genType(c, 2, GenOpts{Capsule: true, Dynamic: c.G(4) == 0})
		}
		d := genValue(c, t, 2, o)
		if t.K == KSet {
			d.MarksInside(false)
		}
		stripSetMarks(d)
		v := d.Build()
		observe(c, v, "C03:population")
		pop = append(pop, mixed{d, v})
	}
	var forced [][2]int // pairs that are judged whatever the draws say: the members of one family of twins
	if c.G(3) == 0 {
		// weakened twins: a wholly unknown value of a member's type, and a known value of the same shape in which one
		// part is still of unknown type (it holds cty.DynamicVal there) - whatever Equals says of such a pair, it says
		// the same in both directions
		for k := 0; k < 3; k++ {
			mi := c.G(len(pop))
			m := pop[mi]
			if m.d.T.HasDynamic() || m.d.T.HasCapsule() {
				continue
			}
			fam := []int{mi, len(pop)}
			u := &VDesc{T: m.d.T, St: StUnknown}
			if c.G(2) == 0 {
				u.Ref = genRef(c, m.d.T)
				u.normalizeCollapsed()
			}
			pop = append(pop, mixed{u, u.Build()})
			near := m.d.T
			for depth := 0; depth < 2; depth++ { // one part of unknown type, then two
				if near = c10NearMiss(c, near); near == nil {
					break
				}
				d := genValue(c, near, 2, GenOpts{Null: true, MaxLen: 2})
				if d.St == StKnown {
					stripSetMarks(d)
					if pan := catch(func() { pop = append(pop, mixed{d, d.Build()}) }); pan != nil {
						break // (typed members next to placeholder members that the constructors refuse)
					}
					fam = append(fam, len(pop)-1)
					c.Probe("c03.weakened-twin")
				}
			}
			for x := 0; x < len(fam); x++ {
				for y := x + 1; y < len(fam); y++ {
					forced = append(forced, [2]int{fam[x], fam[y]})
				}
			}
		}
	}
	if c.G(4) == 0 {
		// unknown numbers whose ranges touch, overlap in one point, or are disjoint
		for k := 0; k < 4; k++ {
			r := &RefDesc{NotNull: c.G(3) != 0}
			b := NumDesc{Mode: NumParse, Text: []string{"4", "5", "6"}[c.G(3)]}
			switch c.G(3) {
			case 0:
				r.HasLo, r.Lo, r.LoInc = true, b, c.G(2) == 0
			case 1:
				r.HasHi, r.Hi, r.HiInc = true, b, c.G(2) == 0
			default:
				r.HasLo, r.Lo, r.LoInc = true, b, c.G(2) == 0
				r.HasHi, r.Hi, r.HiInc = true, NumDesc{Mode: NumParse, Text: "6"}, c.G(2) == 0
			}
			u := &VDesc{T: tNumber, St: StUnknown, Ref: r}
			u.normalizeCollapsed()
			if pan := catch(func() { pop = append(pop, mixed{u, u.Build()}) }); pan == nil {
				c.Probe("c03.touching-ranges")
			}
		}
	}
	if c.G(4) == 0 {
		// sets whose members cannot be told apart by anything but their refinements, one of them stored twice (unknown
		// members never coalesce): whatever raw equality says of two such sets, it says in both directions
		mkU := func(k int) *VDesc {
			u := &VDesc{T: tNumber, St: StUnknown}
			switch k {
			case 1:
				u.Ref = &RefDesc{NotNull: true}
			case 2:
				u.Ref = &RefDesc{HasLo: true, Lo: NumDesc{Mode: NumParse, Text: "1"}, LoInc: true}
			}
			return u
		}
		a, b := mkU(c.G(3)), mkU(c.G(3))
		first := len(pop)
		for _, pair := range [][2]*VDesc{{a, a}, {a, b}, {b, a}, {b, b}} {
			d := &VDesc{T: &TDesc{K: KSet, Elem: tNumber}, Elems: []*VDesc{pair[0], pair[1]}}
			if pan := catch(func() { pop = append(pop, mixed{d, d.Build()}) }); pan != nil {
				break
			}
		}
		for x := first; x < len(pop); x++ {
			for y := x + 1; y < len(pop); y++ {
				forced = append(forced, [2]int{x, y})
			}
		}
		c.Probe("c03.sets-of-indistinguishable-unknowns")
	}
	n = len(pop)
	c.AddShape(fmt.Sprintf("laws base=%s n=%d", base, n))
	for i := range pop {
		if !pop[i].v.RawEquals(pop[i].v) {
			c.Fail("C03", "rawequals-irreflexive", "rawequals-irreflexive:mixed", "%s is not RawEquals to itself", pop[i].d)
		}
	}
	for k := 0; k < 24+len(forced); k++ {
		a, b := pop[c.G(n)], pop[c.G(n)]
		if k >= 24 {
			a, b = pop[forced[k-24][0]], pop[forced[k-24][1]]
			if c.G(2) == 0 {
				a, b = b, a
			}
		}
		c.Event("pair %s | %s", a.d, b.d)
		eq, eq2 := a.v.Equals(b.v), b.v.Equals(a.v)
		c.API("Value.Equals")
		observe(c, eq, "Value.Equals")
		if fp(eq) != fp(eq2) {
			c.Fail("C03", "equals-asymmetric", "equals-asymmetric:mixed", "Equals is not symmetric: %s.Equals(%s) = %s but the converse is %s", a.d, b.d, safeGoString(eq), safeGoString(eq2))
		}
		nullable := func(d *VDesc) bool { return d.St == StUnknown && d.T.K != KDynamic && (d.Ref == nil || !d.Ref.NotNull) }
		if nullable(a.d) && nullable(b.d) && eq.IsKnown() {
			// both may turn out to be null, and any two nulls are equal: nothing can be known to tell them apart
			if ue, _ := eq.Unmark(); ue.False() {
				c.Fail("C03", "nulls-unequal", "nullable-unknowns-unequal", "%s and %s may both turn out to be null (any two nulls are equal), yet Equals is known to be False", a.d, b.d)
			}
			c.Probe("c03.two-nullable-unknowns")
		}
		if ra, rb := a.v.RawEquals(b.v), b.v.RawEquals(a.v); ra != rb {
			c.Fail("C03", "rawequals-asymmetric", "rawequals-asymmetric:mixed", "RawEquals is not symmetric on %s and %s: %t vs %t", a.d, b.d, ra, rb)
		}
		ua, _ := a.v.UnmarkDeep()
		ub, _ := b.v.UnmarkDeep()
		if a.d.St == StNull && b.d.St == StNull {
			c.Probe("c03.two-nulls")
			if e := ua.Equals(ub); !e.IsKnown() || !e.True() {
				c.Fail("C03", "nulls-unequal", "nulls-unequal", "two nulls are not equal: %s.Equals(%s) = %s", a.d, b.d, safeGoString(e))
			}
		}
		if a.d.WhollyKnownDeep() && b.d.WhollyKnownDeep() && !a.d.T.HasDynamic() && !b.d.T.HasDynamic() && ua.Type().Equals(ub.Type()) {
			e := ua.Equals(ub)
			if !e.IsKnown() {
				c.Fail("C03", "equals-rawequals-disagree", "equals-unknown-on-known", "Equals of two wholly known values of one type is unknown: %s, %s", a.d, b.d)
			}
			// (RawEquals compares sets member by member in iteration order, and the order of capsule
			// members is not determined by the members - the statement's own carve-out - so agreement
			// is not demanded of values that hold sets of capsules)
			if e.True() != ua.RawEquals(ub) && !(a.d.T.HasCapsule() && hasSetDesc(a.d.T)) {
				c.Fail("C03", "equals-rawequals-disagree", "equals-vs-rawequals:mixed", "on the wholly known %s and %s Equals is %t but RawEquals is %t", a.d, b.d, e.True(), ua.RawEquals(ub))
			}
			if ds := descSameSets(a.d, b.d); ds != Ambiguous && (ds == Yes) != e.True() {
				c.Fail("C03", "equals-wrong", "equals-wrong:mixed", "%s.Equals(%s) = %t but the documented equality says %t", a.d, b.d, e.True(), ds == Yes)
			}
			if e.True() {
				c.Probe("c03.equal-pair")
				if ua.Hash() != ub.Hash() {
					c.Fail("C03", "equal-different-hash", "hash:mixed", "%s and %s are equal but hash differently", a.d, b.d)
				}
			}
		}
	}
	for k := 0; k < 10; k++ {
		a, b, d := pop[c.G(n)], pop[c.G(n)], pop[c.G(n)]
		if a.v.RawEquals(b.v) && b.v.RawEquals(d.v) && !a.v.RawEquals(d.v) {
			c.Fail("C03", "rawequals-intransitive", "rawequals-intransitive:mixed", "RawEquals is not transitive: %s ~ %s ~ %s but not %s ~ %s", a.d, b.d, d.d, a.d, d.d)
		}
	}
	c.NonTrivial()
}

// descSameSets extends descSame with set semantics through canonical keys.
func descSameSets(a, b *VDesc) Tri {
	ka, xa := canonKey(a)
	kb, xb := canonKey(b)
	if !xa || !xb {
		return Ambiguous
	}
	return triOf(ka == kb)
}

// WhollyKnownDeep: known at every depth, nulls allowed (a null is a known value).
func (v *VDesc) WhollyKnownDeep() bool {
	if v.St == StUnknown {
		return false
	}
	for _, e := range v.Elems {
		if !e.WhollyKnownDeep() {
			return false
		}
	}
	return true
}

// stripSetMarks removes marks below any set (SetVal hoists them to the set, which the
// description would then misreport).
func stripSetMarks(v *VDesc) {
	if v.T.K == KSet {
		for _, e := range v.Elems {
			e.stripMarksDeep()
		}
		return
	}
	for _, e := range v.Elems {
		stripSetMarks(e)
	}
}

var respell = map[string][]string{
	"\u00e9": {"e\u0301"}, "e\u0301": {"\u00e9"}, "\u00c5": {"A\u030a", "\u212b"}, "A\u030a": {"\u00c5", "\u212b"}, "\u212b": {"\u00c5", "A\u030a"},
	"\uac00": {"\u1100\u1161"}, "\u1100\u1161": {"\uac00"},
}

// reRepresent deep-copies a description, re-drawing how each number is produced (parse, float64,
// explicit precision, integer constructor) and how each string is spelled (composed / decomposed).
func reRepresent(c *Ctx, v *VDesc) *VDesc {
	n := *v
	n.Elems = make([]*VDesc, len(v.Elems))
	for i, e := range v.Elems {
		n.Elems[i] = reRepresent(c, e)
	}
	if v.St != StKnown {
		return &n
	}
	switch v.T.K {
	case KNumber:
		if v.Num.Mode == NumParse || v.Num.Mode == NumFloat || v.Num.Mode == NumPrec || v.Num.Mode == NumInt {
			switch c.G(4) {
			case 0:
				n.Num.Mode = NumParse
			case 1:
				n.Num.Mode = NumFloat
			case 2:
				n.Num.Mode, n.Num.Prec = NumPrec, []uint{24, 53, 64, 200}[c.G(4)]
			case 3:
				if bi, ok := new(big.Int).SetString(v.Num.Text, 10); ok && bi.IsInt64() {
					n.Num.Mode = NumInt
				}
			}
		} else if v.Num.Mode == NumNegZero {
			n.Num = NumDesc{Mode: NumParse, Text: "0"}
		}
	case KString:
		if alt := respell[v.S]; len(alt) > 0 {
			n.S = alt[c.G(len(alt))]
		}
	}
	return &n
}

func hasSetDesc(t *TDesc) bool {
	if t.K == KSet {
		return true
	}
	if t.Elem != nil && hasSetDesc(t.Elem) {
		return true
	}
	for _, e := range t.Elems {
		if hasSetDesc(e) {
			return true
		}
	}
	return false
}
