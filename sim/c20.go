package main

// C20 — values and types are immutable and safe to share between goroutines.
// DESIGN.md §5-C20: a world of caller tasks running seeded operation histories
// over a shared pool, executed four times: sequentially (reference, with
// per-step fingerprint and purity checks), sequentially under another map
// order, and twice concurrently under the seeded baton scheduler with the race
// detector watching.

import (
	"fmt"
	"math"
	"math/big"
	"sort"
	"strings"
	"sync"

	"github.com/zclconf/go-cty/cty"
	"github.com/zclconf/go-cty/cty/convert"
	"github.com/zclconf/go-cty/cty/function"
	"github.com/zclconf/go-cty/cty/function/stdlib"
	"github.com/zclconf/go-cty/cty/gocty"
	ctyjson "github.com/zclconf/go-cty/cty/json"
	"github.com/zclconf/go-cty/cty/msgpack"
	"github.com/zclconf/go-cty/cty/verifseam"
	"verif/internal/tape"
)

// ---------------------------------------------------------------------------
// the shared world

type world struct {
	descs  []*VDesc
	vals   []cty.Value
	types  []cty.Type
	tdescs []*TDesc
	sets   []cty.ValueSet // shared, used read-only by tasks (tasks mutate only their own copies)
	psets  []cty.PathSet
	paths  []cty.Path
	convs  []sharedConv   // conversions obtained once by the main goroutine and applied by every task
	byKind map[Kind][]int // pool indices by kind of (unmarked) type
	marks  []cty.ValueMarks
}

// sharedConv is a conversion the convert package handed out once; like the function library's Function
// variables it is a library-made object that several callers apply.
type sharedConv struct {
	in, out cty.Type
	conv    convert.Conversion
	src     int // pool index of a value of type in
}

type ref struct {
	pool bool
	idx  int
}

type opInst struct {
	op int
	a  [3]ref
	p  [3]int
}

type opRes struct {
	vals      []cty.Value
	s         string
	viol      string // set by an operation that itself saw a value change under its hands (checked in the sequential reference execution)
	violClass string // its class when it is not the mutation of Go data handed in or out ("mutated-by-call")
}

// frozen records what v reports now; the returned function is called after the operation has mutated Go data
// the value was built from (or that was obtained from it) and notes a violation in r if v reports anything else.
func frozen(what string, v cty.Value) func(r *opRes) {
	before := fp(v)
	return func(r *opRes) {
		if now := fp(v); now != before && r.viol == "" {
			r.viol = fmt.Sprintf("%s changed when the Go data it was built from was mutated afterwards\nbefore: %s\nafter:  %s", what, clip(before), clip(now))
		}
	}
}

type taskState struct {
	id        int
	w         *world
	results   []cty.Value
	own       []cty.ValueSet // task-owned sets
	ownP      []cty.PathSet
	heldPaths []cty.Path // paths the task obtained from the library and keeps
}

type sel int

const (
	selNone sel = iota
	selAny
	selNumber
	selString
	selBool
	selColl // list, set, map
	selSeq  // list, tuple, set
	selList
	selMap
	selObject
	selSet
	selSame // same pool kind as operand 0
	selTuple
)

type opDef struct {
	name  string
	sels  [3]sel
	fault string
	fn    func(t *taskState, a [3]cty.Value, p [3]int) opRes
}

var opTable []opDef

func defOp(name string, fault string, fn func(t *taskState, a [3]cty.Value, p [3]int) opRes, sels ...sel) {
	d := opDef{name: name, fault: fault, fn: fn}
	copy(d.sels[:], sels)
	opTable = append(opTable, d)
}

func v1(v cty.Value) opRes                  { return opRes{vals: []cty.Value{v}} }
func sres(f string, a ...interface{}) opRes { return opRes{s: fmt.Sprintf(f, a...)} }

func valErr(v cty.Value, err error) opRes {
	if err != nil {
		return opRes{s: errClass(err)}
	}
	return v1(v)
}

// singleMarkText: GoString of a value with several marks renders the mark set in map order
// (documented text, not a result); it is compared only when at most one mark is involved.
func stableGoString(v cty.Value) string {
	_, pvm := v.UnmarkDeepWithPaths()
	for _, p := range pvm {
		if len(p.Marks) > 1 {
			return "gostring-with-several-marks"
		}
	}
	return v.GoString()
}

var stdlibFuncs = []struct {
	name string
	f    function.Function
	n    int
}{
	{"upper", stdlib.UpperFunc, 1}, {"lower", stdlib.LowerFunc, 1}, {"strlen", stdlib.StrlenFunc, 1}, {"reverse", stdlib.ReverseFunc, 1},
	{"length", stdlib.LengthFunc, 1}, {"jsonencode", stdlib.JSONEncodeFunc, 1}, {"keys", stdlib.KeysFunc, 1}, {"values", stdlib.ValuesFunc, 1},
	{"flatten", stdlib.FlattenFunc, 1}, {"distinct", stdlib.DistinctFunc, 1}, {"compact", stdlib.CompactFunc, 1}, {"sort", stdlib.SortFunc, 1},
	{"reverselist", stdlib.ReverseListFunc, 1}, {"abs", stdlib.AbsoluteFunc, 1}, {"negate", stdlib.NegateFunc, 1}, {"ceil", stdlib.CeilFunc, 1},
	{"floor", stdlib.FloorFunc, 1}, {"signum", stdlib.SignumFunc, 1}, {"int", stdlib.IntFunc, 1}, {"not", stdlib.NotFunc, 1},
	{"title", stdlib.TitleFunc, 1}, {"trimspace", stdlib.TrimSpaceFunc, 1}, {"chomp", stdlib.ChompFunc, 1}, {"assertnotnull", stdlib.AssertNotNullFunc, 1},
	{"equal", stdlib.EqualFunc, 2}, {"notequal", stdlib.NotEqualFunc, 2}, {"add", stdlib.AddFunc, 2}, {"subtract", stdlib.SubtractFunc, 2},
	{"multiply", stdlib.MultiplyFunc, 2}, {"divide", stdlib.DivideFunc, 2}, {"modulo", stdlib.ModuloFunc, 2}, {"lessthan", stdlib.LessThanFunc, 2},
	{"greaterthan", stdlib.GreaterThanFunc, 2}, {"min", stdlib.MinFunc, 2}, {"max", stdlib.MaxFunc, 2}, {"pow", stdlib.PowFunc, 2},
	{"and", stdlib.AndFunc, 2}, {"or", stdlib.OrFunc, 2}, {"concat", stdlib.ConcatFunc, 2}, {"coalesce", stdlib.CoalesceFunc, 2},
	{"coalescelist", stdlib.CoalesceListFunc, 2}, {"contains", stdlib.ContainsFunc, 2}, {"index", stdlib.IndexFunc, 2}, {"hasindex", stdlib.HasIndexFunc, 2},
	{"element", stdlib.ElementFunc, 2}, {"lookup3", stdlib.LookupFunc, 3}, {"merge", stdlib.MergeFunc, 2}, {"setunion", stdlib.SetUnionFunc, 2},
	{"setintersection", stdlib.SetIntersectionFunc, 2}, {"setsubtract", stdlib.SetSubtractFunc, 2}, {"setsymdiff", stdlib.SetSymmetricDifferenceFunc, 2},
	{"sethaselement", stdlib.SetHasElementFunc, 2}, {"setproduct", stdlib.SetProductFunc, 2}, {"join", stdlib.JoinFunc, 2}, {"split", stdlib.SplitFunc, 2},
	{"zipmap", stdlib.ZipmapFunc, 2}, {"chunklist", stdlib.ChunklistFunc, 2}, {"format", stdlib.FormatFunc, 2}, {"formatlist", stdlib.FormatListFunc, 2},
	{"trimprefix", stdlib.TrimPrefixFunc, 2}, {"slice3", stdlib.SliceFunc, 3}, {"substr3", stdlib.SubstrFunc, 3}, {"replace3", stdlib.ReplaceFunc, 3},
	{"range", stdlib.RangeFunc, 2}, {"jsondecode", stdlib.JSONDecodeFunc, 1}, {"csvdecode", stdlib.CSVDecodeFunc, 1}, {"regexall", stdlib.RegexAllFunc, 2},
}

func init() {
	// ---- pure operation methods
	defOp("Equals", "", func(t *taskState, a [3]cty.Value, p [3]int) opRes { return v1(a[0].Equals(a[1])) }, selAny, selSame)
	defOp("RawEquals", "", func(t *taskState, a [3]cty.Value, p [3]int) opRes { return sres("%t", a[0].RawEquals(a[1])) }, selAny, selSame)
	defOp("NotEqual", "", func(t *taskState, a [3]cty.Value, p [3]int) opRes { return v1(a[0].NotEqual(a[1])) }, selAny, selSame)
	defOp("EqualsAny", "", func(t *taskState, a [3]cty.Value, p [3]int) opRes { return v1(a[0].Equals(a[1])) }, selAny, selAny)
	defOp("Add", "", func(t *taskState, a [3]cty.Value, p [3]int) opRes { return v1(a[0].Add(a[1])) }, selNumber, selNumber)
	defOp("Subtract", "", func(t *taskState, a [3]cty.Value, p [3]int) opRes { return v1(a[0].Subtract(a[1])) }, selNumber, selNumber)
	defOp("Multiply", "", func(t *taskState, a [3]cty.Value, p [3]int) opRes { return v1(a[0].Multiply(a[1])) }, selNumber, selNumber)
	defOp("Divide", "", func(t *taskState, a [3]cty.Value, p [3]int) opRes { return v1(a[0].Divide(a[1])) }, selNumber, selNumber)
	defOp("Modulo", "", func(t *taskState, a [3]cty.Value, p [3]int) opRes { return v1(a[0].Modulo(a[1])) }, selNumber, selNumber)
	defOp("Negate", "", func(t *taskState, a [3]cty.Value, p [3]int) opRes { return v1(a[0].Negate()) }, selNumber)
	defOp("Absolute", "", func(t *taskState, a [3]cty.Value, p [3]int) opRes { return v1(a[0].Absolute()) }, selNumber)
	defOp("LessThan", "", func(t *taskState, a [3]cty.Value, p [3]int) opRes { return v1(a[0].LessThan(a[1])) }, selNumber, selNumber)
	defOp("GreaterThanOrEqualTo", "", func(t *taskState, a [3]cty.Value, p [3]int) opRes { return v1(a[0].GreaterThanOrEqualTo(a[1])) }, selNumber, selNumber)
	defOp("Not", "", func(t *taskState, a [3]cty.Value, p [3]int) opRes { return v1(a[0].Not()) }, selBool)
	defOp("And", "", func(t *taskState, a [3]cty.Value, p [3]int) opRes { return v1(a[0].And(a[1])) }, selBool, selBool)
	defOp("Or", "", func(t *taskState, a [3]cty.Value, p [3]int) opRes { return v1(a[0].Or(a[1])) }, selBool, selBool)
	defOp("Length", "", func(t *taskState, a [3]cty.Value, p [3]int) opRes { return v1(a[0].Length()) }, selSeq)
	defOp("LengthInt", "", func(t *taskState, a [3]cty.Value, p [3]int) opRes { return sres("%d", a[0].LengthInt()) }, selSeq)
	defOp("IndexInt", "", func(t *taskState, a [3]cty.Value, p [3]int) opRes {
		return v1(a[0].Index(cty.NumberIntVal(int64(p[0] % 3))))
	}, selList)
	defOp("IndexKey", "", func(t *taskState, a [3]cty.Value, p [3]int) opRes {
		return v1(a[0].Index(cty.StringVal(keyPool[p[0]%len(keyPool)].raw)))
	}, selMap)
	defOp("IndexVal", "", func(t *taskState, a [3]cty.Value, p [3]int) opRes { return v1(a[0].Index(a[1])) }, selSeq, selNumber)
	defOp("HasIndex", "", func(t *taskState, a [3]cty.Value, p [3]int) opRes {
		return v1(a[0].HasIndex(cty.NumberIntVal(int64(p[0] % 4))))
	}, selSeq)
	defOp("HasIndexKey", "", func(t *taskState, a [3]cty.Value, p [3]int) opRes {
		return v1(a[0].HasIndex(cty.StringVal(keyPool[p[0]%len(keyPool)].raw)))
	}, selMap)
	defOp("HasElement", "", func(t *taskState, a [3]cty.Value, p [3]int) opRes { return v1(a[0].HasElement(a[1])) }, selSet, selAny)
	defOp("GetAttr", "", func(t *taskState, a [3]cty.Value, p [3]int) opRes {
		names := sortedAttrNames(a[0].Type())
		if len(names) == 0 {
			return sres("no attributes")
		}
		return v1(a[0].GetAttr(names[p[0]%len(names)]))
	}, selObject)
	defOp("Iterate", "", func(t *taskState, a [3]cty.Value, p [3]int) opRes {
		var out []cty.Value
		u, _ := a[0].Unmark()
		for it := u.ElementIterator(); it.Next(); {
			k, v := it.Element()
			out = append(out, k, v)
		}
		return opRes{vals: out}
	}, selColl)
	defOp("ForEachElement", "", func(t *taskState, a [3]cty.Value, p [3]int) opRes {
		var out []cty.Value
		u, _ := a[0].Unmark()
		stopped := u.ForEachElement(func(k, v cty.Value) bool { out = append(out, v); return len(out) > p[0]%4 })
		return opRes{vals: out, s: fmt.Sprint(stopped)}
	}, selSeq)
	defOp("Predicates", "", func(t *taskState, a [3]cty.Value, p [3]int) opRes {
		v := a[0]
		return sres("%t %t %t %t %t %t %t", v.IsKnown(), v.IsNull(), v.IsMarked(), v.IsWhollyKnown(), v.HasWhollyKnownType(), v.ContainsMarked(), v.CanIterateElements())
	}, selAny)
	defOp("GoString", "", func(t *taskState, a [3]cty.Value, p [3]int) opRes { return sres("%s", stableGoString(a[0])) }, selAny)
	defOp("Hash", "", func(t *taskState, a [3]cty.Value, p [3]int) opRes {
		if !a[0].ContainsMarked() {
			// the shared value itself, not a rebuilt copy: a lazily filled cache hanging off a shared
			// value or type is touched here for the first time
			return sres("%d", a[0].Hash())
		}
		u, _ := a[0].UnmarkDeep()
		return sres("%d", u.Hash())
	}, selAny)
	defOp("SetOfShared", "", func(t *taskState, a [3]cty.Value, p [3]int) opRes {
		// hashing and comparing shared values in place (no rebuild)
		if a[0].ContainsMarked() || a[1].ContainsMarked() {
			return sres("marked")
		}
		s := cty.SetVal([]cty.Value{a[0], a[1]})
		return opRes{vals: []cty.Value{s, s.HasElement(a[0])}, s: fmt.Sprint(s.LengthInt())}
	}, selAny, selSame)
	defOp("ValueTypeOps", "", func(t *taskState, a [3]cty.Value, p [3]int) opRes {
		ty, ty2 := a[0].Type(), a[1].Type()
		js, err := ty.MarshalJSON()
		return sres("%t %s %s %s %d %t %t %s", ty.Equals(ty2), ty.FriendlyName(), ty.GoString(), js, len(ty.TestConformance(ty2)), ty.HasDynamicTypes(), ty.IsPrimitiveType(), errClass(err))
	}, selAny, selAny)
	defOp("PathSiblings", "alias.out.path", func(t *taskState, a [3]cty.Value, p [3]int) opRes {
		// several children derived from one parent: each must stay what it was when it was returned
		var parent cty.Path
		switch p[0] % 3 {
		case 0:
			parent = t.w.paths[p[1]%len(t.w.paths)]
		case 1:
			parent = cty.GetAttrPath("a").IndexInt(0).GetAttr("b") // chained: the append growth leaves spare capacity
		case 2:
			_, pvm := a[0].UnmarkDeepWithPaths()
			if len(pvm) == 0 {
				parent = cty.IndexStringPath("k").GetAttr("a").IndexInt(1).GetAttr("c").IndexInt(2)
			} else {
				// (the order of the reported paths is unspecified: choose by content)
				sort.Slice(pvm, func(i, j int) bool {
					return cty.VerifFingerprintPath(pvm[i].Path) < cty.VerifFingerprintPath(pvm[j].Path)
				})
				parent = pvm[p[1]%len(pvm)].Path
			}
		}
		c1 := parent.GetAttr("first")
		c2 := parent.IndexInt(7)
		c3 := parent.IndexString("k")
		c4 := parent.Index(cty.StringVal("last"))
		c5 := parent.Copy().GetAttr("fifth")
		t.heldPaths = append(t.heldPaths, c1, c2, c3, c4, c5)
		return sres("%s %s %s %s %s", cty.VerifFingerprintPath(c1), cty.VerifFingerprintPath(c2), cty.VerifFingerprintPath(c3), cty.VerifFingerprintPath(c4), cty.VerifFingerprintPath(c5))
	}, selAny)
	defOp("Range", "", func(t *taskState, a [3]cty.Value, p [3]int) opRes {
		u, _ := a[0].Unmark()
		return sres("%s", rangeDump(u))
	}, selAny)
	defOp("RangeIncludes", "", func(t *taskState, a [3]cty.Value, p [3]int) opRes {
		u, _ := a[0].Unmark()
		w, _ := a[1].Unmark()
		return v1(u.Range().Includes(w))
	}, selAny, selSame)
	defOp("UnknownAsNull", "", func(t *taskState, a [3]cty.Value, p [3]int) opRes {
		u, _ := a[0].UnmarkDeep()
		return v1(cty.UnknownAsNull(u))
	}, selAny)
	// ---- marks
	defOp("Mark", "", func(t *taskState, a [3]cty.Value, p [3]int) opRes { return v1(a[0].Mark(markPool[p[0]%len(markPool)])) }, selAny)
	defOp("Unmark", "", func(t *taskState, a [3]cty.Value, p [3]int) opRes {
		u, m := a[0].Unmark()
		return opRes{vals: []cty.Value{u}, s: marksKey(m)}
	}, selAny)
	defOp("UnmarkDeep", "", func(t *taskState, a [3]cty.Value, p [3]int) opRes {
		u, m := a[0].UnmarkDeep()
		return opRes{vals: []cty.Value{u}, s: marksKey(m)}
	}, selAny)
	defOp("UnmarkRemark", "", func(t *taskState, a [3]cty.Value, p [3]int) opRes {
		u, pvm := a[0].UnmarkDeepWithPaths()
		keys := make([]string, len(pvm))
		for i, x := range pvm {
			keys[i] = cty.VerifFingerprintPath(x.Path) + marksKey(x.Marks)
		}
		sort.Strings(keys)
		// the recorded list is the caller's: applying it twice gives the same value twice and leaves the list alone
		r1 := u.MarkWithPaths(pvm)
		keys2 := make([]string, len(pvm))
		for i, x := range pvm {
			keys2[i] = cty.VerifFingerprintPath(x.Path) + marksKey(x.Marks)
		}
		sort.Strings(keys2)
		r2 := u.MarkWithPaths(pvm)
		res := opRes{vals: []cty.Value{u, r1, r2}, s: strings.Join(keys, ";")}
		if k1, k2 := strings.Join(keys, ";"), strings.Join(keys2, ";"); k1 != k2 {
			res.viol = fmt.Sprintf("MarkWithPaths changed the list of paths and marks it was given\nbefore: %s\nafter:  %s", clip(k1), clip(k2))
		} else if f1, f2 := fp(r1), fp(r2); f1 != f2 {
			res.viol = fmt.Sprintf("MarkWithPaths with the same list gave two different values\nfirst:  %s\nsecond: %s", clip(f1), clip(f2))
		}
		return res
	}, selAny)
	defOp("WithSameMarks", "", func(t *taskState, a [3]cty.Value, p [3]int) opRes { return v1(a[0].WithSameMarks(a[1], a[2])) }, selAny, selAny, selAny)
	defOp("HasMark", "", func(t *taskState, a [3]cty.Value, p [3]int) opRes {
		return sres("%t %t", a[0].HasMark(markPool[p[0]%len(markPool)]), a[0].HasSameMarks(a[1]))
	}, selAny, selAny)
	// ---- refinement
	defOp("RefineNotNull", "", func(t *taskState, a [3]cty.Value, p [3]int) opRes { return v1(a[0].RefineNotNull()) }, selAny)
	defOp("RefineChain", "helper.fork", func(t *taskState, a [3]cty.Value, p [3]int) opRes {
		b := a[0].Refine()
		var out []cty.Value
		rejected := false
		step := func(i int) {
			defer func() {
				if recover() != nil {
					rejected = true // the state of a builder after a rejected call is unspecified: stop using it
				}
			}()
			switch (p[0] >> (3 * uint(i))) % 10 {
			case 0:
				b.NotNull()
			case 1:
				b.NumberRangeLowerBound(cty.NumberIntVal(int64(p[1]%5)), p[1]%2 == 0)
			case 2:
				b.CollectionLengthUpperBound(3 + p[1]%3)
			case 3:
				b.StringPrefix(c05Prefixes[p[1]%len(c05Prefixes)])
			case 4:
				b.Null() // (the one call that states the opposite of what most refinements carry)
			case 5:
				b.NumberRangeUpperBound(cty.NumberIntVal(int64(5+p[1]%5)), p[1]%2 == 1)
			case 6:
				b.CollectionLengthLowerBound(p[1] % 3)
			case 7:
				b.StringPrefixFull(c05Prefixes[p[1]%len(c05Prefixes)])
			case 8:
				b.NumberRangeInclusive(cty.NumberIntVal(int64(p[1]%3)), cty.NumberIntVal(int64(6+p[1]%3)))
			case 9:
				b.CollectionLength(p[1] % 4)
			}
		}
		for i := 0; i < 3 && !rejected; i++ {
			step(i)
			if !rejected {
				out = append(out, b.NewValue()) // snapshot, then keep using the builder
			}
		}
		return opRes{vals: out}
	}, selAny)
	// ---- walk / transform / paths
	defOp("WalkPaths", "", func(t *taskState, a [3]cty.Value, p [3]int) opRes {
		var keys []string
		var vals []cty.Value
		err := cty.Walk(a[0], func(pa cty.Path, v cty.Value) (bool, error) {
			keys = append(keys, cty.VerifFingerprintPath(pa))
			if len(vals) < 4 {
				vals = append(vals, v)
			}
			return true, nil
		})
		sort.Strings(keys)
		return opRes{vals: vals, s: errClass(err) + strings.Join(keys, ";")}
	}, selAny)
	defOp("TransformIdentity", "", func(t *taskState, a [3]cty.Value, p [3]int) opRes {
		r, err := cty.Transform(a[0], func(pa cty.Path, v cty.Value) (cty.Value, error) { return v, nil })
		return valErr(r, err)
	}, selAny)
	defOp("PathApply", "", func(t *taskState, a [3]cty.Value, p [3]int) opRes {
		pa := t.w.paths[p[0]%len(t.w.paths)]
		r, err := pa.Apply(a[0])
		return valErr(r, err)
	}, selAny)
	defOp("PathCopyMutate", "alias.out.path", func(t *taskState, a [3]cty.Value, p [3]int) opRes {
		pa := t.w.paths[p[0]%len(t.w.paths)]
		cp := pa.Copy()
		ext := pa.GetAttr("zz").IndexInt(1)
		for i := range cp {
			cp[i] = cty.GetAttrStep{Name: "overwritten"}
		}
		for i := range ext {
			ext[i] = cty.GetAttrStep{Name: "overwritten"}
		}
		return sres("%t %t", pa.Equals(cp), pa.HasPrefix(ext))
	})
	defOp("PathText", "", func(t *taskState, a [3]cty.Value, p [3]int) opRes {
		pa := t.w.paths[p[0]%len(t.w.paths)]
		out := ""
		for _, st := range pa {
			switch s := st.(type) {
			case cty.GetAttrStep:
				out += s.GoString()
			case cty.IndexStep:
				out += s.GoString()
			}
		}
		if len(pa) > 0 {
			if last := pa.LastStep; last != nil {
				_, st, err := last(a[0])
				out += fmt.Sprintf("|%T %v", st, err == nil)
			}
		}
		return sres("%s", out)
	}, selAny)
	defOp("MarksEqual", "", func(t *taskState, a [3]cty.Value, p [3]int) opRes {
		m0, m1 := a[0].Marks(), a[1].Marks()
		_, d0 := a[0].UnmarkDeep()
		return sres("%t %t %t", m0.Equal(m1), m0.Equal(d0), d0.Equal(d0))
	}, selAny, selAny)
	defOp("CapsuleOps", "", func(t *taskState, a [3]cty.Value, p [3]int) opRes {
		// conversions a capsule type provides, in both directions, and its extension data
		ct := capTypes[1]
		var out []cty.Value
		s := fmt.Sprint(ct.CapsuleExtensionData("verif"), ct.CapsuleExtensionData("other"), capTypes[0].CapsuleExtensionData("verif"))
		in := a[0]
		if u, _ := in.Unmark(); !u.Type().IsCapsuleType() && u.Type() != cty.Bool {
			in = []cty.Value{cty.CapsuleVal(ct, capPayloads[1][p[0]%6]), cty.BoolVal(p[0]%2 == 0), cty.UnknownVal(ct), cty.NullVal(ct)}[p[1]%4]
		}
		for _, target := range []cty.Type{cty.Number, cty.String, cty.Bool, ct} {
			r, err := convert.Convert(in, target)
			if err != nil {
				s += "|" + errClass(err)
				continue
			}
			out = append(out, r)
		}
		return opRes{vals: out, s: s}
	}, selAny)
	defOp("RefineNull", "", func(t *taskState, a [3]cty.Value, p [3]int) opRes {
		u, _ := a[0].Unmark()
		if !u.IsKnown() && p[0]%3 != 0 {
			// the shared value itself: whatever it was refined with before stays what it reports
			return v1(a[0].Refine().Null().NewValue())
		}
		return v1(cty.UnknownVal(u.Type()).Refine().Null().NewValue())
	}, selAny)
	// a callback that marks members: marks put on members of a set surface on the set, next to the set's own
	defOp("TransformMark", "", func(t *taskState, a [3]cty.Value, p [3]int) opRes {
		every := 1 + p[0]%4
		r, err := cty.Transform(a[0], func(pa cty.Path, v cty.Value) (cty.Value, error) {
			// which members get the mark depends on where they are, not on when they are visited (sibling order is
			// not promised)
			h := 0
			for _, ch := range []byte(cty.VerifFingerprintPath(pa)) {
				h = h*31 + int(ch)
			}
			if h < 0 {
				h = -h
			}
			if h%every == 0 && len(pa) > 0 {
				return v.Mark("tm"), nil
			}
			return v, nil
		})
		return valErr(r, err)
	}, selAny)
	// the errors of a conformance test each name their own place: one path per offending member, each error's path
	// its own (read after all of them have been produced, and again after one of them was scribbled over)
	defOp("ConformancePaths", "alias.out.path", func(t *taskState, a [3]cty.Value, p [3]int) opRes {
		u, _ := a[0].Unmark()
		t1 := u.Type()
		flip := func(ty cty.Type) cty.Type {
			switch ty {
			case cty.String:
				return cty.Number
			case cty.Number:
				return cty.Bool
			case cty.Bool:
				return cty.String
			}
			return ty
		}
		var t2 cty.Type
		var want []string
		switch {
		case t1.IsObjectType() && len(t1.AttributeTypes()) > 0:
			atys := map[string]cty.Type{}
			for _, n := range sortedAttrNames(t1) {
				at := t1.AttributeType(n)
				atys[n] = flip(at)
				if atys[n] != at {
					want = append(want, cty.VerifFingerprintPath(cty.GetAttrPath(n)))
				}
			}
			t2 = cty.Object(atys)
		case t1.IsTupleType() && t1.Length() > 0:
			var etys []cty.Type
			for i, et := range t1.TupleElementTypes() {
				etys = append(etys, flip(et))
				if etys[i] != et {
					want = append(want, cty.VerifFingerprintPath(cty.IndexIntPath(i)))
				}
			}
			t2 = cty.Tuple(etys)
		default:
			return sres("not a structure")
		}
		errs := t1.TestConformance(t2)
		var got []string
		for _, e := range errs {
			if pe, ok := e.(cty.PathError); ok {
				got = append(got, cty.VerifFingerprintPath(pe.Path))
			} else {
				got = append(got, "no-path")
			}
		}
		sort.Strings(got)
		sort.Strings(want)
		res := sres("%d %v", len(errs), got)
		if strings.Join(got, "|") != strings.Join(want, "|") {
			res.viol = fmt.Sprintf("TestConformance of %s against the same structure with other primitive member types names the places %v, the members that differ are at %v", t1.FriendlyName(), got, want)
			res.violClass = "mutated-by-call"
		}
		if len(errs) >= 2 {
			if pe, ok := errs[0].(cty.PathError); ok && len(pe.Path) > 0 {
				var before []string
				for _, e := range errs[1:] {
					if q, ok := e.(cty.PathError); ok {
						before = append(before, cty.VerifFingerprintPath(q.Path))
					}
				}
				for i := range pe.Path {
					pe.Path[i] = cty.GetAttrStep{Name: "overwritten by the caller"}
				}
				var after []string
				for _, e := range errs[1:] {
					if q, ok := e.(cty.PathError); ok {
						after = append(after, cty.VerifFingerprintPath(q.Path))
					}
				}
				if strings.Join(before, "|") != strings.Join(after, "|") && res.viol == "" {
					res.viol = fmt.Sprintf("overwriting the path of one conformance error changed the paths of the others: %v -> %v", before, after)
				}
			}
		}
		return res
	}, selAny)
	// ---- accessors followed by mutation of the returned Go data
	defOp("AsBigFloatMutate", "alias.out.bigfloat", func(t *taskState, a [3]cty.Value, p [3]int) opRes {
		u, _ := a[0].Unmark()
		f := u.AsBigFloat()
		before := f.Text('g', 30)
		switch p[0] % 3 {
		case 0:
			f.SetInt64(int64(p[1]))
		case 1:
			f.Neg(f)
		case 2:
			f.Add(f, big.NewFloat(1.5)).SetPrec(24)
		}
		return sres("%s", before)
	}, selNumber)
	defOp("MarksMutate", "alias.out.marks", func(t *taskState, a [3]cty.Value, p [3]int) opRes {
		m := a[0].Marks()
		k := marksKey(m)
		if m != nil {
			m["injected"] = struct{}{}
			delete(m, "m1")
		}
		_, m2 := a[0].Unmark()
		if m2 != nil {
			m2["injected2"] = struct{}{}
			delete(m2, "m2")
		}
		_, m3 := a[0].UnmarkDeep()
		m3["injected3"] = struct{}{}
		// the (path, marks) entries of UnmarkDeepWithPaths are the caller's too
		_, pvm := a[0].UnmarkDeepWithPaths()
		for i := range pvm {
			pvm[i].Marks["injected4"] = struct{}{}
			delete(pvm[i].Marks, "m1")
			for j := range pvm[i].Path {
				pvm[i].Path[j] = cty.GetAttrStep{Name: "overwritten"}
			}
		}
		return sres("%s", k)
	}, selAny)
	defOp("AsValueSliceMutate", "alias.out.slice", func(t *taskState, a [3]cty.Value, p [3]int) opRes {
		u, _ := a[0].Unmark()
		s := u.AsValueSlice()
		out := append([]cty.Value(nil), s...)
		for i := range s {
			s[i] = cty.StringVal("overwritten")
		}
		s = append(s, cty.True)
		return opRes{vals: out}
	}, selSeq)
	defOp("AsValueMapMutate", "alias.out.map", func(t *taskState, a [3]cty.Value, p [3]int) opRes {
		u, _ := a[0].Unmark()
		m := u.AsValueMap()
		keys := make([]string, 0, len(m))
		for k := range m {
			keys = append(keys, k)
		}
		sort.Strings(keys)
		out := make([]cty.Value, 0, len(keys))
		for _, k := range keys {
			out = append(out, m[k])
		}
		for _, k := range keys {
			if p[0]%2 == 0 {
				delete(m, k)
			} else {
				m[k] = cty.StringVal("overwritten")
			}
		}
		if m != nil {
			m["injected"] = cty.True
		}
		return opRes{vals: out, s: strings.Join(keys, ",")}
	}, selMap)
	defOp("AsValueMapMutateObj", "alias.out.map", func(t *taskState, a [3]cty.Value, p [3]int) opRes {
		u, _ := a[0].Unmark()
		m := u.AsValueMap()
		n := len(m)
		for k := range m {
			m[k] = cty.StringVal("overwritten")
		}
		if m != nil {
			m["injected"] = cty.True
		}
		return sres("%d", n)
	}, selObject)
	defOp("AsValueSetMutate", "alias.out.valueset", func(t *taskState, a [3]cty.Value, p [3]int) opRes {
		u, _ := a[0].Unmark()
		s := u.AsValueSet()
		vals := s.Values()
		ety := s.ElementType()
		for i, v := range vals {
			if i%2 == p[0]%2 {
				s.Remove(v)
			}
		}
		if x := sampleOfType(t.w, ety, p[1]); x != cty.NilVal {
			s.Add(x)
		}
		t.own = append(t.own, s)
		return opRes{vals: vals, s: fmt.Sprint(s.Length())}
	}, selSet)
	// ---- constructors followed by mutation of the Go data passed in
	defOp("ListValMutate", "alias.in.slice", func(t *taskState, a [3]cty.Value, p [3]int) opRes {
		in := []cty.Value{a[0], a[1]}
		if p[1]%2 == 0 {
			in = append(make([]cty.Value, 0, 8), in...) // spare capacity
		}
		var r cty.Value
		what := ""
		switch p[0] % 3 {
		case 0:
			r, what = cty.ListVal(in), "ListVal"
		case 1:
			r, what = cty.TupleVal(in), "TupleVal"
		case 2:
			r, what = cty.SetVal(in), "SetVal"
		}
		chk := frozen("the result of "+what, r)
		in[0], in[1] = cty.StringVal("overwritten"), cty.False
		in = append(in, cty.True)
		res := v1(r)
		chk(&res)
		return res
	}, selAny, selSame)
	defOp("MapValMutate", "alias.in.map", func(t *taskState, a [3]cty.Value, p [3]int) opRes {
		in := map[string]cty.Value{"a": a[0], keyPool[4+p[1]%4].raw: a[1]}
		var r cty.Value
		what := "MapVal"
		if p[0]%2 == 0 {
			r = cty.MapVal(in)
		} else {
			r, what = cty.ObjectVal(in), "ObjectVal"
		}
		chk := frozen("the result of "+what, r)
		in["a"] = cty.StringVal("overwritten")
		delete(in, keyPool[4+p[1]%4].raw)
		in["injected"] = cty.True
		res := v1(r)
		chk(&res)
		return res
	}, selAny, selSame)
	defOp("MarksInMutate", "alias.in.marks", func(t *taskState, a [3]cty.Value, p [3]int) opRes {
		// every way of handing a Go mark set to the library, on a receiver with and without marks of its own;
		// the caller keeps the set and goes on using it
		recv := a[0]
		if p[0]%2 == 0 {
			recv, _ = recv.UnmarkDeep()
		}
		src := cty.NewValueMarks("m1", "x")
		var r cty.Value
		what := ""
		switch p[1] % 6 {
		case 0:
			r, what = recv.WithMarks(src), "WithMarks(one set)"
		case 1:
			r, what = recv.WithMarks(cty.NewValueMarks(), src, nil), "WithMarks(empty, set, nil)"
		case 2:
			r, what = recv.WithMarks(src, cty.NewValueMarks("y")), "WithMarks(two sets)"
		case 3:
			u, _ := recv.Unmark()
			r, what = u.MarkWithPaths([]cty.PathValueMarks{{Path: cty.Path{}, Marks: src}}), "MarkWithPaths(root)"
		case 4:
			u, m := recv.Unmark()
			m["m1"] = struct{}{}
			src = m
			r, what = u.WithMarks(m), "WithMarks(the set Unmark returned)"
		case 5:
			merged := cty.NewValueMarks(src, "y")
			r, what = recv.WithMarks(merged), "WithMarks(NewValueMarks(set, mark))"
			chk := frozen("the result of "+what, r)
			merged["injected"] = struct{}{}
			res := v1(r)
			chk(&res)
			return res
		}
		chk := frozen("the result of "+what, r)
		src["injected"] = struct{}{}
		delete(src, "m1")
		res := opRes{vals: []cty.Value{r}, s: marksKey(src)}
		chk(&res)
		return res
	}, selAny)
	// ---- ValueSet life cycles on task-owned copies of shared sets
	defOp("SetFork", "helper.fork", func(t *taskState, a [3]cty.Value, p [3]int) opRes {
		if len(t.w.sets) == 0 {
			return sres("no shared sets")
		}
		shared := t.w.sets[p[0]%len(t.w.sets)]
		own := shared.Copy()
		ety := own.ElementType()
		if x := sampleOfType(t.w, ety, p[1]); x != cty.NilVal {
			own.Add(x)
		}
		wrapped := cty.SetValFromValueSet(own)
		if x := sampleOfType(t.w, ety, p[2]); x != cty.NilVal {
			own.Add(x)
			if p[2]%3 == 0 {
				own.Remove(x)
			}
		}
		t.own = append(t.own, own)
		return opRes{vals: append([]cty.Value{wrapped}, own.Values()...), s: fmt.Sprint(own.Length(), shared.Length())}
	})
	defOp("SetOwnMutate", "helper.fork", func(t *taskState, a [3]cty.Value, p [3]int) opRes {
		if len(t.own) == 0 {
			return sres("no own sets")
		}
		own := t.own[p[0]%len(t.own)]
		before := cty.SetValFromValueSet(own)
		c2 := own.Copy()
		ety := own.ElementType()
		if x := sampleOfType(t.w, ety, p[1]); x != cty.NilVal {
			if p[2]%2 == 0 {
				own.Add(x)
			} else {
				own.Remove(x)
			}
			if y := sampleOfType(t.w, ety, p[1]+1); y != cty.NilVal {
				c2.Add(y)
			}
		}
		t.own = append(t.own, c2)
		return opRes{vals: []cty.Value{before, cty.SetValFromValueSet(own), cty.SetValFromValueSet(c2)}, s: fmt.Sprint(own.Length(), c2.Length())}
	})
	defOp("SetAlgebra", "", func(t *taskState, a [3]cty.Value, p [3]int) opRes {
		if len(t.w.sets) == 0 {
			return sres("no shared sets")
		}
		s1 := t.w.sets[p[0]%len(t.w.sets)]
		s2 := t.w.sets[p[1]%len(t.w.sets)]
		var r cty.ValueSet
		switch p[2] % 4 {
		case 0:
			r = s1.Union(s2)
		case 1:
			r = s1.Intersection(s2)
		case 2:
			r = s1.Subtract(s2)
		case 3:
			r = s1.SymmetricDifference(s2)
		}
		before := r.Values()
		// the result is the task's own set: changing it must leave both (shared) operands alone
		ety := r.ElementType()
		if x := sampleOfType(t.w, ety, p[2]/4); x != cty.NilVal {
			r.Add(x)
		}
		if len(before) > 0 {
			r.Remove(before[(p[2]/8)%len(before)])
		}
		has := false
		if x := sampleOfType(t.w, ety, p[2]/16); x != cty.NilVal {
			has = s1.Has(x) || s2.Has(x)
		}
		return opRes{vals: before, s: fmt.Sprint(len(before), r.Length(), has)}
	})
	defOp("PathSetOps", "helper.fork", func(t *taskState, a [3]cty.Value, p [3]int) opRes {
		if len(t.w.psets) == 0 {
			return sres("no shared path sets")
		}
		s1 := t.w.psets[p[0]%len(t.w.psets)]
		s2 := t.w.psets[p[1]%len(t.w.psets)]
		var own cty.PathSet
		switch p[1] / 7 % 5 {
		case 0:
			own = s1.Union(s2)
		case 1:
			own = s1.Intersection(s2)
		case 2:
			own = s1.Subtract(s2)
		case 3:
			own = s1.SymmetricDifference(s2)
		case 4:
			own = s1.Union(cty.NewPathSet()) // an empty operand: the result is still a set of its own
		}
		pa := t.w.paths[p[2]%len(t.w.paths)]
		own.Add(pa.Copy())
		own.AddAllSteps(t.w.paths[(p[2]+3)%len(t.w.paths)])
		own.Remove(t.w.paths[(p[2]+1)%len(t.w.paths)])
		l := s1.List()
		n := len(l)
		for i := range l {
			l[i] = cty.GetAttrPath("overwritten")
		}
		t.ownP = append(t.ownP, own)
		return sres("%t %t %d %t %d", s1.Has(pa), s1.Equal(s2), n, own.Has(pa), len(own.List()))
	})
	// ---- types
	defOp("TypeOps", "", func(t *taskState, a [3]cty.Value, p [3]int) opRes {
		t1 := t.w.types[p[0]%len(t.w.types)]
		t2 := t.w.types[p[1]%len(t.w.types)]
		js, err := t1.MarshalJSON()
		return sres("%t %s %s %s %d %t %s %s", t1.Equals(t2), t1.FriendlyName(), t1.GoString(), js, len(t1.TestConformance(t2)), t1.HasDynamicTypes(), errClass(err), fpType(t1.WithoutOptionalAttributesDeep()))
	})
	defOp("TypeJSONRoundTrip", "", func(t *taskState, a [3]cty.Value, p [3]int) opRes {
		t1 := t.w.types[p[0]%len(t.w.types)]
		js, err := ctyjson.MarshalType(t1)
		if err != nil {
			return sres("%s", errClass(err))
		}
		t2, err := ctyjson.UnmarshalType(js)
		if err != nil {
			return sres("%s", errClass(err))
		}
		return sres("%s", fpType(t2))
	})
	// ---- conversion / unification
	defOp("Convert", "", func(t *taskState, a [3]cty.Value, p [3]int) opRes {
		r, err := convert.Convert(a[0], t.w.types[p[0]%len(t.w.types)])
		return valErr(r, err)
	}, selAny)
	defOp("ConvertToOther", "", func(t *taskState, a [3]cty.Value, p [3]int) opRes {
		r, err := convert.Convert(a[0], a[1].Type())
		return valErr(r, err)
	}, selAny, selAny)
	defOp("ConvertDerived", "", func(t *taskState, a [3]cty.Value, p [3]int) opRes {
		// a target derived from the operand's own type (the kinds of conversion that exist: between sequence
		// kinds, between mapping kinds, to and from the placeholder), for the value itself, a null or an unknown of
		// its type - conversions of structural types walk, unify and rebuild the shared types they are given
		ty := a[0].Type()
		var want cty.Type
		k := p[0] % 4
		switch {
		case ty.IsTupleType():
			ets := ty.TupleElementTypes()
			switch {
			case k == 0 || len(ets) == 0:
				want = cty.List(cty.DynamicPseudoType)
			case k == 1:
				want = cty.Set(cty.DynamicPseudoType)
			case k == 2:
				want = cty.List(ets[p[1]%len(ets)])
			default:
				want = cty.Tuple(append([]cty.Type{cty.DynamicPseudoType}, ets[1:]...))
			}
		case ty.IsObjectType():
			names := sortedAttrNames(ty)
			switch {
			case k == 0 || len(names) == 0:
				want = cty.Map(cty.DynamicPseudoType)
			case k == 1:
				want = cty.Map(ty.AttributeType(names[p[1]%len(names)]))
			case k == 2:
				atys := map[string]cty.Type{}
				for _, n := range names[1:] {
					atys[n] = ty.AttributeType(n)
				}
				atys["opt"] = cty.String
				want = cty.ObjectWithOptionalAttrs(atys, []string{"opt"})
			default:
				want = cty.DynamicPseudoType
			}
		case ty.IsListType() || ty.IsSetType():
			ety := ty.ElementType()
			want = []cty.Type{cty.Set(ety), cty.List(ety), cty.List(cty.DynamicPseudoType), cty.Tuple([]cty.Type{ety, ety})}[k]
		case ty.IsMapType():
			ety := ty.ElementType()
			want = []cty.Type{cty.Map(cty.DynamicPseudoType), cty.Object(map[string]cty.Type{"a": ety, "k": ety}), cty.Map(cty.String), cty.DynamicPseudoType}[k]
		default:
			want = []cty.Type{cty.String, cty.Number, cty.Bool, cty.DynamicPseudoType}[k]
		}
		in := a[0]
		switch p[2] % 4 {
		case 0:
			in = cty.NullVal(ty)
		case 1:
			in = cty.UnknownVal(ty)
		}
		r, err := convert.Convert(in, want)
		return valErr(r, err)
	}, selAny)
	defOp("GetConversion", "", func(t *taskState, a [3]cty.Value, p [3]int) opRes {
		want := t.w.types[p[0]%len(t.w.types)]
		var conv convert.Conversion
		if p[1]%2 == 0 {
			conv = convert.GetConversion(a[0].Type(), want)
		} else {
			conv = convert.GetConversionUnsafe(a[0].Type(), want)
		}
		if conv == nil {
			return sres("no conversion")
		}
		r, err := conv(a[0])
		return valErr(r, err)
	}, selAny)
	defOp("Unify", "", func(t *taskState, a [3]cty.Value, p [3]int) opRes {
		tys := []cty.Type{a[0].Type(), a[1].Type(), t.w.types[p[0]%len(t.w.types)]}
		var ty cty.Type
		var convs []convert.Conversion
		if p[1]%2 == 0 {
			ty, convs = convert.Unify(tys[:2+p[1]%2])
		} else {
			ty, convs = convert.UnifyUnsafe(tys)
		}
		if ty == cty.NilType {
			return sres("no unification")
		}
		var out []cty.Value
		for i, cv := range convs {
			if cv != nil && i < 2 {
				if r, err := cv(a[i]); err == nil {
					out = append(out, r)
				}
			}
		}
		return opRes{vals: out, s: fpType(ty)}
	}, selAny, selAny)
	defOp("SharedConversion", "", func(t *taskState, a [3]cty.Value, p [3]int) opRes {
		if len(t.w.convs) == 0 {
			return sres("no shared conversions")
		}
		sc := t.w.convs[p[0]%len(t.w.convs)]
		var in cty.Value
		switch {
		case sc.src < 0:
			// a conversion from the placeholder type decides late, per value: every task hands it values of many types
			in = a[0]
		case p[1]%4 == 0:
			in = cty.NullVal(sc.in)
		case p[1]%4 == 1:
			in = cty.UnknownVal(sc.in)
		default:
			in = t.w.vals[sc.src]
		}
		r, err := sc.conv(in)
		return valErr(r, err)
	}, selAny)
	// ---- functions
	defOp("StdlibCall", "", func(t *taskState, a [3]cty.Value, p [3]int) opRes {
		f := stdlibFuncs[p[0]%len(stdlibFuncs)]
		r, err := f.f.Call(a[:f.n])
		return valErr(r, err)
	}, selAny, selAny, selAny)
	defOp("StdlibCallSame", "", func(t *taskState, a [3]cty.Value, p [3]int) opRes {
		f := stdlibFuncs[p[0]%len(stdlibFuncs)]
		r, err := f.f.Call(a[:f.n])
		return valErr(r, err)
	}, selAny, selSame, selNumber)
	defOp("StdlibReturnType", "", func(t *taskState, a [3]cty.Value, p [3]int) opRes {
		f := stdlibFuncs[p[0]%len(stdlibFuncs)]
		tys := []cty.Type{a[0].Type(), a[1].Type(), a[2].Type()}
		ty, err := f.f.ReturnType(tys[:f.n])
		if err != nil {
			return sres("%s", errClass(err))
		}
		ps := f.f.Params()
		for i := range ps {
			ps[i].Name = "overwritten" // Params() promises a copy
			ps[i].Type = cty.Bool
		}
		if vp := f.f.VarParam(); vp != nil {
			vp.Type = cty.Bool
		}
		return sres("%s", fpType(ty))
	}, selAny, selAny, selAny)
	// ---- codecs
	defOp("JSONRoundTrip", "", func(t *taskState, a [3]cty.Value, p [3]int) opRes {
		u, _ := a[0].UnmarkDeep()
		ty := u.Type()
		if p[0]%3 == 0 {
			ty = cty.DynamicPseudoType
		}
		b, err := ctyjson.Marshal(u, ty)
		if err != nil {
			return sres("%s", errClass(err))
		}
		r, err := ctyjson.Unmarshal(b, ty)
		if err != nil {
			return sres("unmarshal %s", errClass(err))
		}
		it, _ := ctyjson.ImpliedType(b)
		return opRes{vals: []cty.Value{r}, s: string(b) + fpType(it)}
	}, selAny)
	defOp("SimpleJSON", "", func(t *taskState, a [3]cty.Value, p [3]int) opRes {
		u, _ := a[0].UnmarkDeep()
		b, err := ctyjson.SimpleJSONValue{Value: u}.MarshalJSON()
		if err != nil {
			return sres("%s", errClass(err))
		}
		var sv ctyjson.SimpleJSONValue
		err = sv.UnmarshalJSON(b)
		return opRes{vals: []cty.Value{sv.Value}, s: string(b) + errClass(err)}
	}, selAny)
	defOp("MsgpackRoundTrip", "", func(t *taskState, a [3]cty.Value, p [3]int) opRes {
		u, _ := a[0].UnmarkDeep()
		ty := u.Type()
		if p[0]%3 == 0 {
			ty = cty.DynamicPseudoType
		}
		b, err := msgpack.Marshal(u, ty)
		if err != nil {
			return sres("%s", errClass(err))
		}
		r, err := msgpack.Unmarshal(b, ty)
		if err != nil {
			return sres("unmarshal %s", errClass(err))
		}
		it, _ := msgpack.ImpliedType(b)
		return opRes{vals: []cty.Value{r}, s: fmt.Sprintf("%x", b) + fpType(it)}
	}, selAny)
	// bytes an encoder returned are the caller's: scribbling over them must not change what encoding the same
	// (or any other) value gives afterwards
	defOp("EncodedBytesMutate", "alias.out.bytes", func(t *taskState, a [3]cty.Value, p [3]int) opRes {
		x, _ := a[0].UnmarkDeep()
		y, _ := a[1].UnmarkDeep()
		if p[0]%4 == 0 {
			y = []cty.Value{cty.DynamicVal, cty.NullVal(cty.DynamicPseudoType), cty.UnknownVal(cty.String), cty.True, cty.EmptyObjectVal}[p[1]%5]
		}
		enc := func(v cty.Value, how int) []byte {
			var b []byte
			switch how % 5 {
			case 0:
				b, _ = msgpack.Marshal(v, v.Type())
			case 1:
				b, _ = msgpack.Marshal(v, cty.DynamicPseudoType)
			case 2:
				b, _ = ctyjson.Marshal(cty.UnknownAsNull(v), cty.DynamicPseudoType)
			case 3:
				b, _ = ctyjson.MarshalType(v.Type())
			default:
				b, _ = v.Type().MarshalJSON()
			}
			return b
		}
		var before [5]string
		for h := range before {
			before[h] = string(enc(x, h))
		}
		res := sres("%x", before[p[2]%5])
		scribbled := enc(y, p[2])
		for i := range scribbled {
			scribbled[i] ^= 0x5a
		}
		scribbled = append(scribbled[:0], "overwritten by the caller"...)
		_ = scribbled
		for h := range before {
			if now := string(enc(x, h)); now != before[h] && res.viol == "" {
				res.viol = fmt.Sprintf("after the bytes of another encoding result were overwritten by their owner, the same value encodes differently\nbefore: %x\nafter:  %x", clip(before[h]), clip(now))
			}
		}
		return res
	}, selAny, selAny)
	// ---- gocty
	defOp("GoctyOut", "", func(t *taskState, a [3]cty.Value, p [3]int) opRes {
		u, _ := a[0].UnmarkDeep()
		var out string
		switch p[0] % 6 {
		case 0:
			var s string
			err := gocty.FromCtyValue(u, &s)
			out = s + errClass(err)
		case 1:
			var n int64
			err := gocty.FromCtyValue(u, &n)
			out = fmt.Sprint(n) + errClass(err)
		case 2:
			var l []string
			err := gocty.FromCtyValue(u, &l)
			out = fmt.Sprint(l) + errClass(err)
		case 3:
			var m map[string]string
			err := gocty.FromCtyValue(u, &m)
			out = fmt.Sprint(m) + errClass(err) // fmt prints maps in key order
		case 4:
			var f big.Float
			err := gocty.FromCtyValue(u, &f)
			out = f.Text('g', 30) + errClass(err)
			f.SetInt64(99) // a copy was promised by the value's immutability
		case 5:
			var v cty.Value
			err := gocty.FromCtyValue(u, &v)
			out = errClass(err)
			if err == nil {
				return opRes{vals: []cty.Value{v}, s: out}
			}
		}
		return sres("%s", out)
	}, selAny)
	defOp("GoctyIn", "", func(t *taskState, a [3]cty.Value, p [3]int) opRes {
		var gv interface{}
		switch p[0] % 5 {
		case 0:
			gv = map[string]string{"b": "x", "a": "y", keyPool[4].raw: "z"}
		case 1:
			gv = []int{3, 1, 2}
		case 2:
			gv = map[string]int{"k": 1, "j": 2, "i": 3}
		case 3:
			gv = struct {
				A string `cty:"a"`
				B int    `cty:"b"`
			}{"x", p[1]}
		case 4:
			gv = map[string][]string{"p": {"1"}, "q": {"2", "3"}}
		}
		ty, err := gocty.ImpliedType(gv)
		if err != nil {
			return sres("%s", errClass(err))
		}
		r, err := gocty.ToCtyValue(gv, ty)
		if err != nil {
			return sres("%s", errClass(err))
		}
		if p[2]%2 == 0 {
			r2, err := gocty.ToCtyValue(gv, t.w.types[p[1]%len(t.w.types)].WithoutOptionalAttributesDeep())
			if err == nil {
				return opRes{vals: []cty.Value{r, r2}}
			}
		}
		return v1(r)
	})
	// Go data of every shape the bridge accepts, with explicit target types: nil pointers, interface slices for
	// tuples, string-keyed maps for objects, duplicates for sets, unnormalized keys, numbers at the limits of the
	// machine types, big numbers, values already in cty form, capsule payloads
	defOp("GoctyInRich", "", func(t *taskState, a [3]cty.Value, p [3]int) opRes {
		str := "s"
		composed, decomposed := "\u00e9", "e\u0301"
		type inner struct {
			N *int    `cty:"n"`
			S *string `cty:"s"`
		}
		type outer struct {
			In  *inner          `cty:"in"`
			L   []inner         `cty:"l"`
			V   cty.Value       `cty:"v"`
			M   map[string]bool `cty:"m"`
			Big *big.Float      `cty:"big"`
		}
		seven := 7
		innerT := cty.Object(map[string]cty.Type{"n": cty.Number, "s": cty.String})
		rows := []struct {
			v  interface{}
			ty cty.Type
		}{
			{map[string]*string{"a": nil, "b": &str, decomposed: &composed}, cty.Map(cty.String)},
			{[]interface{}{"a", 1, true, nil}, cty.Tuple([]cty.Type{cty.String, cty.Number, cty.Bool, cty.String})},
			{map[string]interface{}{"n": 3, "s": decomposed}, innerT},
			{[]string{"b", "a", "b", decomposed, composed}, cty.Set(cty.String)},
			{[]*inner{nil, {N: &seven}, {S: &decomposed}}, cty.List(innerT)},
			{outer{In: nil, L: []inner{{}, {N: &seven}}, V: a[0], M: map[string]bool{decomposed: true}, Big: new(big.Float).SetPrec(24).SetFloat64(0.1)},
				cty.Object(map[string]cty.Type{"in": innerT, "l": cty.List(innerT), "v": cty.DynamicPseudoType, "m": cty.Map(cty.Bool), "big": cty.Number})},
			{uint64(math.MaxUint64), cty.Number}, {int64(math.MinInt64), cty.Number}, {math.Inf(-1), cty.Number}, {float32(0.1), cty.Number},
			{new(big.Int).Lsh(big.NewInt(1), 200), cty.Number},
			{capPayloads[0][p[1]%6], capTypes[0]}, {*capPayloads[1][p[1]%6], capTypes[1]},
			{a[0], cty.DynamicPseudoType}, {[]cty.Value{a[0], a[0]}, cty.Tuple([]cty.Type{cty.DynamicPseudoType, cty.DynamicPseudoType})},
			{[3]int{1, 2, 3}, cty.List(cty.Number)}, {map[string][]*int{"k": {nil, &seven}}, cty.Map(cty.List(cty.Number))},
			{(*string)(nil), cty.String}, {[]string(nil), cty.List(cty.String)}, {map[string]int(nil), cty.Map(cty.Number)},
		}
		row := rows[p[0]%len(rows)]
		if um, _ := a[0].UnmarkDeep(); um.RawEquals(a[0]) == false {
			// (the bridge takes cty values as they are; marks are its caller's business)
			row = rows[(p[0]%len(rows)+6)%len(rows)]
		}
		r, err := gocty.ToCtyValue(row.v, row.ty)
		if err != nil {
			return sres("%d:%s", p[0]%len(rows), errClass(err))
		}
		return v1(r)
	}, selAny)
}

func sortedAttrNames(ty cty.Type) []string {
	if !ty.IsObjectType() {
		return nil
	}
	var names []string
	for n := range ty.AttributeTypes() {
		names = append(names, n)
	}
	sort.Strings(names)
	return names
}

func marksKey(m cty.ValueMarks) string {
	keys := make([]string, 0, len(m))
	for k := range m {
		keys = append(keys, fmt.Sprintf("%T:%v", k, k))
	}
	sort.Strings(keys)
	return "{" + strings.Join(keys, ",") + "}"
}

func rangeDump(u cty.Value) string {
	r := u.Range()
	ty := r.TypeConstraint()
	s := fmt.Sprintf("%t %t", r.CouldBeNull(), r.DefinitelyNotNull())
	switch {
	case ty == cty.Number:
		lo, li := r.NumberLowerBound()
		hi, hinc := r.NumberUpperBound()
		s += fmt.Sprintf(" %s/%t %s/%t", fp(lo), li, fp(hi), hinc)
	case ty == cty.String:
		s += fmt.Sprintf(" %q", r.StringPrefix())
	case ty.IsCollectionType():
		s += fmt.Sprintf(" %d..%d", r.LengthLowerBound(), r.LengthUpperBound())
	}
	return s
}

// sampleOfType picks a pool value of exactly the given type (unmarked), or NilVal.
func sampleOfType(w *world, ty cty.Type, k int) cty.Value {
	n := len(w.vals)
	for d := 0; d < n; d++ {
		v := w.vals[(k+d)%n]
		if v.IsMarked() || v.ContainsMarked() {
			continue
		}
		if v.Type().Equals(ty) {
			return v
		}
	}
	return cty.NilVal
}

// ---------------------------------------------------------------------------
// world generation

func c20GenWorld(c *Ctx) *world {
	w := &world{byKind: map[Kind][]int{}}
	o := GenOpts{Capsule: true, Marks: true, Unknown: true, Null: true, Refine: true, Collide: c.G(2) == 1, MaxLen: 3}
	fam := 0
	if c.G(3) == 0 {
		fam = 1 + c.G(10) // strings and integers whose set hashes truly collide (collisions.go)
		o.Fam = fam
	}
	nVals := 6 + c.G(26)
	// a few deliberate families: numbers (several precisions), strings, a collision-prone set, objects with unknown attributes
	for i := 0; i < nVals; i++ {
		var t *TDesc
		switch c.G(8) {
		case 0, 1:
			t = tNumber
		case 2:
			t = tString
		case 3:
			t = &TDesc{K: KSet, Elem: []*TDesc{tNumber, tString, {K: KCapsule, Cap: 0}, {K: KCapsule, Cap: 1}, {K: KList, Elem: tNumber}}[c.G(5)]}
		case 4:
			t = &TDesc{K: KObject, Names: []string{"a", "b", "c"}, Elems: []*TDesc{tNumber, tString, tNumber}}
		case 5:
			t = &TDesc{K: KMap, Elem: tNumber}
		default:
			t = genType(c, 2, GenOpts{Capsule: true})
		}
		if c.G(12) == 0 {
			// structures whose members are sequences (or mappings) of different kinds over one element type:
			// what unification has to reconcile member by member
			et := []*TDesc{tString, tNumber, tBool}[c.G(3)]
			seqs := []*TDesc{{K: KList, Elem: et}, {K: KTuple, Elems: []*TDesc{et, et}}, {K: KTuple, Elems: []*TDesc{et}}, {K: KSet, Elem: et}, tDynamic}
			maps := []*TDesc{{K: KMap, Elem: et}, {K: KObject, Names: []string{"a", "k"}, Elems: []*TDesc{et, et}}, {K: KObject, Names: []string{"zz"}, Elems: []*TDesc{et}}, tDynamic}
			n := 2 + c.G(3)
			if c.G(2) == 0 {
				t = &TDesc{K: KTuple}
				for j := 0; j < n; j++ {
					t.Elems = append(t.Elems, seqs[c.G(len(seqs)-1+c.G(2))])
				}
			} else {
				t = &TDesc{K: KObject}
				for j := 0; j < n; j++ {
					t.Names = append(t.Names, []string{"a", "b", "c", "k"}[j])
					t.Elems = append(t.Elems, maps[c.G(len(maps)-1+c.G(2))])
				}
			}
		}
		d := genValue(c, t, 3, o)
		if t.K == KSet {
			d.MarksInside(false)
		}
		w.descs = append(w.descs, d)
	}
	for _, d := range w.descs {
		v := d.Build()
		w.vals = append(w.vals, v)
	}
	// package-level values are part of the shared pool
	for _, v := range []cty.Value{cty.True, cty.False, cty.Zero, cty.DynamicVal, cty.EmptyObjectVal, cty.EmptyTupleVal, cty.PositiveInfinity, cty.NegativeInfinity, cty.NullVal(cty.DynamicPseudoType)} {
		w.vals = append(w.vals, v)
	}
	for i, v := range w.vals {
		ty := v.Type()
		var k Kind
		switch {
		case ty == cty.Number:
			k = KNumber
		case ty == cty.String:
			k = KString
		case ty == cty.Bool:
			k = KBool
		case ty.IsListType():
			k = KList
		case ty.IsSetType():
			k = KSet
		case ty.IsMapType():
			k = KMap
		case ty.IsTupleType():
			k = KTuple
		case ty.IsObjectType():
			k = KObject
		case ty.IsCapsuleType():
			k = KCapsule
		default:
			k = KDynamic
		}
		w.byKind[k] = append(w.byKind[k], i)
	}
	nTypes := 3 + c.G(8)
	for i := 0; i < nTypes; i++ {
		td := genType(c, 2, GenOpts{Dynamic: true, Optional: true, Capsule: c.G(4) == 0})
		w.tdescs = append(w.tdescs, td)
		w.types = append(w.types, td.Cty())
	}
	w.types = append(w.types, cty.String, cty.Number, cty.DynamicPseudoType, cty.List(cty.String), cty.Map(cty.Number), cty.Set(cty.String))
	// shared ValueSets: built by the main goroutine, read-only afterwards; collision-prone on purpose
	nSets := c.G(4)
	for i := 0; i < nSets; i++ {
		var ety cty.Type
		var members []cty.Value
		kindOfSet := c.G(5)
		if fs, fi := familyStrings(fam), familyInts(fam); fam > 0 && fs != nil && fi != nil && c.G(2) == 0 {
			kindOfSet = -1
			// members that share one bucket AND are ordered among themselves, added in a drawn order
			if c.G(2) == 0 {
				ety = cty.String
				for _, j := range []int{c.G(4), c.G(4), c.G(4), c.G(4)} {
					members = append(members, cty.StringVal(fs[j%len(fs)]))
				}
			} else {
				ety = cty.Number
				for _, j := range []int{c.G(4), c.G(4), c.G(4), c.G(4)} {
					members = append(members, cty.NumberIntVal(fi[j%len(fi)]))
				}
			}
		}
		switch kindOfSet {
		case -1:
		case 0:
			ety = cty.Number
			for _, tx := range []string{"1.00000000001", "1.00000000002", "1.00000000003", "1.000000000012", "2", "3"} {
				if c.G(4) != 0 {
					members = append(members, cty.MustParseNumberVal(tx))
				}
			}
		case 1:
			ety = capTypes[0]
			for j := 0; j < 6; j++ {
				if c.G(4) != 0 {
					members = append(members, cty.CapsuleVal(ety, capPayloads[0][j]))
				}
			}
		case 2:
			ety = capTypes[1]
			for j := 0; j < 6; j++ {
				if c.G(4) != 0 {
					members = append(members, cty.CapsuleVal(ety, capPayloads[1][j]))
				}
			}
		case 3:
			ety = cty.String
			for j := 0; j < 1+c.G(5); j++ {
				members = append(members, cty.StringVal(strPool[c.G(len(strPool))]))
			}
			if c.G(2) == 0 {
				members = append(members, cty.UnknownVal(cty.String), cty.UnknownVal(cty.String).RefineNotNull(), cty.UnknownVal(cty.String).Refine().StringPrefixFull("a").NewValue())
			}
		default:
			ety = cty.List(cty.Number)
			for _, tx := range []string{"1.00000000001", "1.00000000002", "1.00000000003", "7"} {
				if c.G(4) != 0 {
					members = append(members, cty.ListVal([]cty.Value{cty.MustParseNumberVal(tx)}))
				}
			}
		}
		s := cty.NewValueSet(ety)
		for _, m := range members {
			s.Add(m)
		}
		// a removal leaves buckets whose arrays may have spare capacity — the interesting state
		if len(members) > 2 && c.G(2) == 0 {
			s.Remove(members[len(members)-1])
		}
		w.sets = append(w.sets, s)
		// the wrapped set is a pool value too
		w.vals = append(w.vals, cty.SetValFromValueSet(s))
		w.byKind[KSet] = append(w.byKind[KSet], len(w.vals)-1)
	}
	// large collections: sorting, hashing and growth code changes behaviour with size (library sorts switch
	// algorithm above a dozen elements; append growth leaves other spare capacities), and only many members make
	// several of them unordered among themselves (unknown strings with different refinements)
	if c.G(3) == 0 {
		n := 13 + c.G(28)
		var strs []cty.Value
		for i := 0; i < n; i++ {
			strs = append(strs, cty.StringVal(fmt.Sprintf("m%02d", (i*7)%n)))
		}
		unk := []cty.Value{
			cty.UnknownVal(cty.String).Refine().StringPrefixFull("alpha-").NewValue(),
			cty.UnknownVal(cty.String).Refine().StringPrefixFull("beta-").NewValue(),
			cty.UnknownVal(cty.String).RefineNotNull(),
			cty.UnknownVal(cty.String),
			cty.UnknownVal(cty.String).Refine().NotNull().StringPrefixFull("gamma-").NewValue(),
		}
		withUnk := append(append([]cty.Value{}, strs...), unk[:2+c.G(4)]...)
		m := map[string]cty.Value{}
		for i, sv := range strs {
			m[sv.AsString()] = cty.NumberIntVal(int64(i % 5))
		}
		big := []struct {
			k Kind
			v cty.Value
		}{{KSet, cty.SetVal(withUnk)}, {KSet, cty.SetVal(strs)}, {KList, cty.ListVal(withUnk)}, {KMap, cty.MapVal(m)}, {KTuple, cty.TupleVal(withUnk)}, {KObject, cty.ObjectVal(m)}}
		for _, b := range big {
			if c.G(2) == 0 {
				w.vals = append(w.vals, b.v)
				w.byKind[b.k] = append(w.byKind[b.k], len(w.vals)-1)
			}
		}
		if c.G(2) == 0 {
			s := cty.NewValueSet(cty.String)
			for _, x := range withUnk {
				s.Add(x)
			}
			w.sets = append(w.sets, s)
		}
		c.Probe("c20.large-collections")
	}
	// shared conversions: from the type of a pool value to a drawn or derived target
	nConv := c.G(5)
	for i := 0; i < nConv; i++ {
		src := c.G(len(w.descs))
		in := w.vals[src].Type()
		var out cty.Type
		if c.G(2) == 0 {
			out = w.types[c.G(len(w.types))]
		} else {
			out = convTarget(c, w.descs[src].T, 3).Cty()
		}
		var conv convert.Conversion
		unsafe := c.G(2) == 0
		if catch(func() {
			if unsafe {
				conv = convert.GetConversionUnsafe(in, out)
			} else {
				conv = convert.GetConversion(in, out)
			}
		}) == nil && conv != nil {
			w.convs = append(w.convs, sharedConv{in: in, out: out, conv: conv, src: src})
		}
	}
	// ... conversions whose source is the placeholder type (the real conversion is chosen when a value arrives)
	nDynConv := c.G(3)
	for i := 0; i < nDynConv; i++ {
		var out cty.Type
		switch c.G(3) {
		case 0:
			out = w.types[c.G(len(w.types))]
		case 1:
			out = w.vals[c.G(len(w.vals))].Type()
		default:
			out = []cty.Type{cty.String, cty.Number, cty.Bool, cty.List(cty.String), cty.Map(cty.String), cty.Set(cty.String), cty.List(cty.DynamicPseudoType)}[c.G(7)]
		}
		var conv convert.Conversion
		unsafe := c.G(3) != 0
		if catch(func() {
			if unsafe {
				conv = convert.GetConversionUnsafe(cty.DynamicPseudoType, out)
			} else {
				conv = convert.GetConversion(cty.DynamicPseudoType, out)
			}
		}) == nil && conv != nil {
			w.convs = append(w.convs, sharedConv{in: cty.DynamicPseudoType, out: out, conv: conv, src: -1})
			c.Probe("c20.shared-conversion-from-dynamic")
		}
	}
	// ... and the conversions unification hands out for its inputs
	if c.G(2) == 0 {
		idx := []int{c.G(len(w.descs)), c.G(len(w.descs)), c.G(len(w.descs))}[:2+c.G(2)]
		var tys []cty.Type
		for _, i := range idx {
			tys = append(tys, w.vals[i].Type())
		}
		var uty cty.Type
		var convs []convert.Conversion
		unsafe := c.G(2) == 0
		if catch(func() {
			if unsafe {
				uty, convs = convert.UnifyUnsafe(tys)
			} else {
				uty, convs = convert.Unify(tys)
			}
		}) == nil && uty != cty.NilType {
			for k, cv := range convs {
				if cv != nil {
					w.convs = append(w.convs, sharedConv{in: tys[k], out: uty, conv: cv, src: idx[k]})
				}
			}
		}
	}
	// paths and shared path sets
	w.paths = []cty.Path{
		cty.GetAttrPath("a"), cty.GetAttrPath("b"), cty.IndexIntPath(0), cty.IndexIntPath(1), cty.IndexStringPath("a"),
		cty.GetAttrPath("a").IndexInt(0), cty.IndexIntPath(0).GetAttr("a"), cty.IndexStringPath("k").IndexInt(2), cty.GetAttrPath("c").GetAttr("a"), {},
		cty.GetAttrPath("a").IndexInt(0).GetAttr("b"), cty.IndexIntPath(1).IndexInt(0).IndexString("k").GetAttr("a").IndexInt(3),
	}
	nP := c.G(3)
	for i := 0; i < nP; i++ {
		ps := cty.NewPathSet()
		for _, pa := range w.paths {
			if c.G(2) == 0 {
				ps.Add(pa.Copy())
			}
		}
		w.psets = append(w.psets, ps)
	}
	return w
}

// MarksInside(false) strips marks from members (sets hoist them anyway).
func (v *VDesc) MarksInside(keep bool) {
	if keep {
		return
	}
	for _, e := range v.Elems {
		e.stripMarksDeep()
	}
}

func (w *world) fingerprints() []string {
	out := make([]string, 0, len(w.vals)+len(w.types)+len(w.sets)+len(w.psets)+len(w.paths))
	for _, v := range w.vals {
		out = append(out, fp(v))
	}
	for _, t := range w.types {
		out = append(out, fpType(t))
	}
	for _, s := range w.sets {
		out = append(out, cty.VerifFingerprintValueSet(s))
	}
	for _, s := range w.psets {
		out = append(out, cty.VerifFingerprintPathSet(s))
	}
	for _, p := range w.paths {
		out = append(out, cty.VerifFingerprintPath(p))
	}
	return out
}

func (w *world) describe(i int) string {
	nv, nt, ns, np := len(w.vals), len(w.types), len(w.sets), len(w.psets)
	switch {
	case i < nv:
		if i < len(w.descs) {
			return fmt.Sprintf("pool value %d = %s", i, w.descs[i])
		}
		return fmt.Sprintf("pool value %d = %s", i, safeGoString(w.vals[i]))
	case i < nv+nt:
		return fmt.Sprintf("pool type %d = %#v", i-nv, w.types[i-nv])
	case i < nv+nt+ns:
		return fmt.Sprintf("shared ValueSet %d", i-nv-nt)
	case i < nv+nt+ns+np:
		return fmt.Sprintf("shared PathSet %d", i-nv-nt-ns)
	}
	return fmt.Sprintf("pool path %d", i-nv-nt-ns-np)
}

// ---------------------------------------------------------------------------
// programs

func c20GenPrograms(c *Ctx, w *world, nTasks int) [][]opInst {
	progs := make([][]opInst, nTasks)
	maxOps := 6 + c.G(26)
	// swarm: a random subset of operations is enabled per run
	enabled := make([]int, 0, len(opTable))
	focused := c.G(5) == 0 // a narrow world: a handful of operations meet each other again and again
	for i := range opTable {
		if focused {
			if c.G(12) == 0 {
				enabled = append(enabled, i)
			}
		} else if c.G(3) != 0 {
			enabled = append(enabled, i)
		}
	}
	for len(enabled) < 2 {
		enabled = append(enabled, c.G(len(opTable)))
	}
	if focused {
		c.Probe("c20.focused-world")
	}
	anyIdx := func() int { return c.G(len(w.vals)) }
	pick := func(s sel, first ref, nRes int) ref {
		if nRes > 0 && c.G(4) == 3 {
			return ref{false, c.G(nRes)}
		}
		kinds := map[sel][]Kind{
			selNumber: {KNumber}, selString: {KString}, selBool: {KBool}, selColl: {KList, KSet, KMap}, selSeq: {KList, KTuple, KSet},
			selList: {KList, KTuple}, selMap: {KMap, KObject}, selObject: {KObject}, selSet: {KSet}, selTuple: {KTuple},
		}
		switch s {
		case selAny, selNone:
			return ref{true, anyIdx()}
		case selSame:
			if first.pool {
				// another pool value of the same type, or the same value
				ty := w.vals[first.idx].Type()
				start := anyIdx()
				for d := 0; d < len(w.vals); d++ {
					j := (start + d) % len(w.vals)
					if w.vals[j].Type().Equals(ty) {
						return ref{true, j}
					}
				}
			}
			return first
		}
		var cand []int
		for _, k := range kinds[s] {
			cand = append(cand, w.byKind[k]...)
		}
		if len(cand) == 0 {
			return ref{true, anyIdx()}
		}
		sort.Ints(cand)
		return ref{true, cand[c.G(len(cand))]}
	}
	for t := range progs {
		n := 3 + c.G(maxOps)
		for k := 0; k < n; k++ {
			in := opInst{op: enabled[c.G(len(enabled))]}
			d := opTable[in.op]
			for j := 0; j < 3; j++ {
				in.a[j] = pick(d.sels[j], in.a[0], k)
				in.p[j] = c.G(1 << 16)
			}
			progs[t] = append(progs[t], in)
		}
	}
	return progs
}

func (t *taskState) arg(r ref) cty.Value {
	if r.pool {
		return t.w.vals[r.idx]
	}
	if r.idx < len(t.results) && t.results[r.idx] != cty.NilVal {
		return t.results[r.idx]
	}
	return t.w.vals[r.idx%len(t.w.vals)]
}

//go:noinline
func execOp(t *taskState, in opInst) (r opRes) {
	defer func() {
		if x := recover(); x != nil {
			r = opRes{s: panicClass(x)}
		}
	}()
	a := [3]cty.Value{t.arg(in.a[0]), t.arg(in.a[1]), t.arg(in.a[2])}
	return opTable[in.op].fn(t, a, in.p)
}

func (t *taskState) push(r opRes) {
	if len(r.vals) > 0 {
		t.results = append(t.results, r.vals[0])
	} else {
		t.results = append(t.results, cty.NilVal)
	}
}

func resKey(r opRes) string {
	var b strings.Builder
	for _, v := range r.vals {
		if v == cty.NilVal {
			b.WriteString("NilVal;")
			continue
		}
		b.WriteString(fp(v))
		b.WriteString(";")
	}
	b.WriteString("|")
	b.WriteString(r.s)
	return b.String()
}

func (in opInst) String() string {
	d := opTable[in.op]
	var args []string
	for j := 0; j < 3; j++ {
		if d.sels[j] == selNone {
			continue
		}
		if in.a[j].pool {
			args = append(args, fmt.Sprintf("pool[%d]", in.a[j].idx))
		} else {
			args = append(args, fmt.Sprintf("result[%d]", in.a[j].idx))
		}
	}
	return fmt.Sprintf("%s(%s; p=%d,%d,%d)", d.name, strings.Join(args, ", "), in.p[0], in.p[1], in.p[2])
}

// ---------------------------------------------------------------------------
// the four executions

type c20Sched struct {
	cfg verifseam.Config
}

func c20GenSched(c *Ctx, nTasks int) verifseam.Config {
	cfg := verifseam.Config{Tasks: nTasks, Budget: 200000}
	cfg.Strategy = c.Int(tape.Sched, 4)
	switch cfg.Strategy {
	case verifseam.StratCallGranular:
		cfg.P = uint32([]int{65536, 32768, 16384, 8192}[c.Int(tape.Sched, 4)])
	case verifseam.StratRandom:
		cfg.P = uint32([]int{131, 655, 3277, 13107, 19661}[c.Int(tape.Sched, 5)]) // 0.002 .. 0.3
	case verifseam.StratPCT:
		d := 1 + c.Int(tape.Sched, 4)
		for i := 0; i < d; i++ {
			cfg.Changes = append(cfg.Changes, uint64(c.Int(tape.Sched, 3000)))
		}
		sort.Slice(cfg.Changes, func(i, j int) bool { return cfg.Changes[i] < cfg.Changes[j] })
	case verifseam.StratRoundRobin:
		cfg.K = uint64(1 + c.Int(tape.Sched, 40))
	}
	cfg.Seed = c.U64(tape.Sched)
	for i := 0; i < nTasks; i++ {
		cfg.Orders = append(cfg.Orders, c.Int(tape.MapOrder, verifseam.NumOrders))
		cfg.Args = append(cfg.Args, c.U64(tape.MapOrder))
	}
	return cfg
}

func runSequential(w *world, progs [][]opInst, hook func(t *taskState, ti, k int, in opInst, r opRes)) [][]opRes {
	out := make([][]opRes, len(progs))
	for ti, prog := range progs {
		t := &taskState{id: ti, w: w}
		out[ti] = make([]opRes, len(prog))
		for k, in := range prog {
			r := execOp(t, in)
			t.push(r)
			out[ti][k] = r
			if hook != nil {
				hook(t, ti, k, in, r)
			}
		}
	}
	return out
}

func runConcurrent(w *world, progs [][]opInst, cfg verifseam.Config, free bool) ([][]opRes, *verifseam.Sched) {
	out := make([][]opRes, len(progs))
	for ti := range progs {
		out[ti] = make([]opRes, len(progs[ti]))
	}
	var wg sync.WaitGroup
	var s *verifseam.Sched
	if !free {
		s = verifseam.NewSched(cfg)
	}
	for ti := range progs {
		wg.Add(1)
		go func(ti int) {
			defer wg.Done()
			if s != nil {
				s.TaskEnter(ti)
			}
			t := &taskState{id: ti, w: w}
			res := out[ti]
			for k, in := range progs[ti] {
				verifseam.Boundary()
				r := execOp(t, in)
				t.push(r)
				res[k] = r
			}
			if s != nil {
				s.TaskExit(ti)
			}
		}(ti)
	}
	if s != nil {
		s.Start()
	}
	wg.Wait()
	if s != nil {
		s.Close()
	}
	return out, s
}

func simC20World(c *Ctx) {
	// sync.Pool as shipped, or (the overlay's default) handing nothing between goroutines: see makeOverlay
	if realPool := c.Int(tape.Sched, 2) == 1; poolSwitchable {
		setPooling(realPool)
		defer setPooling(false)
		if realPool {
			c.Probe("c20.world-with-real-sync.Pool")
		}
	}
	w := c20GenWorld(c)
	nTasks := 2 + c.G(3)
	if c.G(6) == 5 {
		nTasks = 2 + c.G(15)
	}
	progs := c20GenPrograms(c, w, nTasks)
	sameProg := c.G(4) == 0
	if sameProg {
		// every task runs the same program: whatever is initialised lazily on first use is first
		// used by all of them at once
		for ti := range progs {
			progs[ti] = progs[0]
		}
	}
	orderB := 1 + c.Int(tape.MapOrder, verifseam.NumOrders-1)
	orderBArg := c.U64(tape.MapOrder)
	sched1 := c20GenSched(c, nTasks)
	sched2 := c20GenSched(c, nTasks)
	concFirst := c.Int(tape.Sched, 2) == 1 || sameProg
	c.Planned()

	nOps := 0
	for ti, prog := range progs {
		for k, in := range prog {
			c.Event("task %d op %d: %s", ti, k, in)
			nOps++
			c.API(opTable[in.op].name)
		}
	}
	c.AddShape(fmt.Sprintf("tasks=%d ops=%d pool=%d same=%t first=%t", nTasks, nOps, len(w.vals), sameProg, concFirst))
	if sameProg {
		c.Fired("sched.same-program-cold-start")
	}
	if concFirst {
		c.Fired("sched.concurrent-before-sequential")
	}
	base := w.fingerprints()
	checkPool := func(phase string) {
		now := w.fingerprints()
		for i := range base {
			if now[i] != base[i] {
				c.Fail("C20", "mutated-shared", "mutated-shared:"+phase,
					"%s changed after the %s phase although no task may mutate the shared pool\nbefore: %s\nafter:  %s", w.describe(i), phase, clip(base[i]), clip(now[i]))
			}
		}
	}
	compare := func(phase string, ref, got [][]opRes, class string) {
		for ti := range ref {
			for k := range ref[ti] {
				a, b := resKey(ref[ti][k]), resKey(got[ti][k])
				if a != b {
					c.Fail("C20", class, class+":"+opTable[progs[ti][k].op].name,
						"task %d op %d %s gave a different result in the %s execution than in the sequential reference\nreference: %s\n%s: %s",
						ti, k, progs[ti][k], phase, clip(a), phase, clip(b))
				}
			}
		}
	}
	var conc1 [][]opRes
	var s1 *verifseam.Sched
	if concFirst {
		// first touch of any lazily initialised state happens inside the concurrent phase
		conc1, s1 = runConcurrent(w, progs, sched1, false)
		checkPool("first concurrent")
	}

	// ---- 1. sequential reference under ascending map order, with per-step checks
	verifseam.SetMainOrder(verifseam.OrderAsc, 0)
	var live []cty.Value
	var liveFP []string
	heldFP := map[string]string{}
	ref := runSequential(w, progs, func(t *taskState, ti, k int, in opInst, r opRes) {
		d := opTable[in.op]
		if d.fault != "" {
			c.Fired(d.fault)
		}
		for _, v := range r.vals {
			observe(c, v, "C20:"+d.name)
		}
		if r.viol != "" {
			cls := "mutated-through-alias"
			if r.violClass != "" {
				cls = r.violClass
			}
			c.Fail("C20", cls, cls+":own:"+d.name, "task %d op %d %s: %s", ti, k, in, r.viol)
		}
		// nothing that existed before may have changed
		now := w.fingerprints()
		for i := range base {
			if now[i] != base[i] {
				cls := "mutated-by-call"
				if strings.HasPrefix(d.fault, "alias.") {
					cls = "mutated-through-alias"
				}
				c.Fail("C20", cls, cls+":"+d.name,
					"%s changed when task %d executed op %d %s\nbefore: %s\nafter:  %s", w.describe(i), ti, k, in, clip(base[i]), clip(now[i]))
			}
		}
		for i, v := range live {
			if got := fp(v); got != liveFP[i] {
				cls := "mutated-by-call"
				if strings.HasPrefix(d.fault, "alias.") {
					cls = "mutated-through-alias"
				}
				c.Fail("C20", cls, cls+":result:"+d.name,
					"an earlier result changed when task %d executed op %d %s\nbefore: %s\nafter:  %s", ti, k, in, clip(liveFP[i]), clip(got))
			}
		}
		for i, hp := range t.heldPaths {
			key := fmt.Sprintf("%d/%d", ti, i)
			now := cty.VerifFingerprintPath(hp)
			if was, ok := heldFP[key]; ok && was != now {
				c.Fail("C20", "mutated-by-call", "mutated-by-call:path:"+d.name,
					"a path returned earlier to task %d changed when it executed op %d %s\nbefore: %s\nafter:  %s", ti, k, in, was, now)
			}
			heldFP[key] = now
		}
		for _, v := range r.vals {
			if v != cty.NilVal && len(live) < 400 {
				live = append(live, v)
				liveFP = append(liveFP, fp(v))
			}
		}
	})
	// purity: the whole program again, in the same order, must give the same results
	ref2 := runSequential(w, progs, nil)
	compare("repeated sequential", ref, ref2, "impure-repeat")
	checkPool("sequential")

	// ---- 2. sequential under another map order
	verifseam.SetMainOrder(orderB, orderBArg)
	c.Fired("maporder." + []string{"asc", "desc", "rotate", "shuffle"}[orderB])
	seqB := runSequential(w, progs, nil)
	verifseam.SetMainOrder(verifseam.OrderAsc, 0)
	compare("other-map-order", ref, seqB, "order-dependent")
	checkPool("other-map-order")

	// ---- 3./4. concurrent under the baton scheduler
	if !concFirst {
		conc1, s1 = runConcurrent(w, progs, sched1, false)
		checkPool("concurrent")
	}
	compare("concurrent", ref, conc1, "concurrent-result-differs")
	conc2, s2 := runConcurrent(w, progs, sched2, false)
	checkPool("second concurrent")
	compare("second concurrent", ref, conc2, "concurrent-result-differs")

	for _, s := range []*verifseam.Sched{s1, s2} {
		y, sw, mid, ex := s.Stats()
		c.Stats.Yields += y
		c.Stats.Switches += sw
		c.Stats.MidCall += mid
		if mid > 0 {
			c.Fired("sched.switch")
		}
		if ex {
			c.Probe("c20.yield-budget-exhausted")
		}
		var b strings.Builder
		for _, x := range s.Switches() {
			fmt.Fprintf(&b, "%d>%d@%d;", x.At, x.To, x.Site)
		}
		c.Stats.Schedules[hashString(b.String())]++
		c.Event("schedule: %d yields, %d switches (%d inside calls)", y, sw, mid)
	}
	var sb strings.Builder
	for _, v := range base {
		sb.WriteString(v)
	}
	c.Stats.States[hashString(sb.String())]++
	for _, s := range w.sets {
		if cty.VerifSetSpareCapacity(s) > 0 {
			c.Probe("c20.shared-set-with-spare-capacity")
		}
		if cty.VerifSetMaxBucket(s) >= 3 {
			c.Probe("c20.bucket-collision>=3")
		}
	}
	c.NonTrivial()
}

func clip(s string) string {
	if len(s) > 700 {
		return s[:700] + "…"
	}
	return s
}
