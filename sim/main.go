// Command simworker is the simulation worker built by the driver against an
// instrumented scratch copy of go-cty (never against /repo directly).
//
//	simworker run    -prop C05 -seed S -from I -n N -tier quick -out results.jsonl -replays DIR
//	simworker replay -file replay.json
//	simworker try    -file replay.json        (exit 0 = same violation class reproduced, 3 = not)
package main

import (
	"encoding/json"
	"flag"
	"fmt"
	"os"
	"path/filepath"
	"runtime/debug"
	"runtime/pprof"
	"sort"
	"strings"
	"sync/atomic"
	"time"

	"github.com/zclconf/go-cty/cty/verifseam"
	"verif/internal/tape"
)

type simFunc func(c *Ctx)

type simEntry struct {
	name   string
	weight int
	fn     simFunc
}

// onPlanned, when set, is called by a simulation once all of its choices are drawn and before
// it executes anything that could kill the process (race-detector halt, allocation blow-up).
var onPlanned func(c *Ctx)

// confirmMode is set when a recorded violation is being replayed in a fresh process.
var confirmMode bool

// registry: property -> simulations (selected round-robin by weight from the run index)
var registry = map[string][]simEntry{}

func register(prop string, name string, weight int, fn simFunc) {
	registry[prop] = append(registry[prop], simEntry{name, weight, fn})
}

func init() {
	register("C05", "histories", 7, simC05Histories)
	register("C05", "cuts", 1, simC05Cuts)
	register("C05", "knownsets", 1, simC05KnownSets)
	register("C20", "world", 1, simC20World)
	register("C03", "sets", 5, simC03Sets)
	register("C03", "laws", 1, simC03Laws)
	register("C10", "protocol", 1, simC10Protocol)
	register("C19", "walk", 4, simC19Walk)
	register("C19", "apply", 2, simC19Apply)
	register("C19", "pathsets", 2, simC19PathSets)
	register("C17", "store", 1, simC17Store)
	register("C06", "monitor", 2, simC06Monitor)
	register("C06", "conversions", 1, simC06Conversions)
	register("C06", "decoders", 1, simC17Store) // the record store as a source of decoded values (its own oracles muted)
}

func pickSim(prop string, index uint64) simEntry {
	sims := registry[prop]
	total := 0
	for _, s := range sims {
		total += s.weight
	}
	k := int(index % uint64(total))
	for _, s := range sims {
		if k < s.weight {
			return s
		}
		k -= s.weight
	}
	return sims[0]
}

func findSim(prop, name string) (simEntry, bool) {
	for _, s := range registry[prop] {
		if s.name == name {
			return s, true
		}
	}
	return simEntry{}, false
}

// runOne executes one simulated run from the given source of choices.
func runOne(prop string, se simEntry, tier string, src *tape.Source, st *Stats) (viol *Violation, c *Ctx) {
	c = NewCtx(prop+"/"+se.name, tier, src, st)
	// map-order policy of the main task: drawn from the maporder stream, ascending being the simplest
	order := c.Int(tape.MapOrder, verifseam.NumOrders)
	arg := c.U64(tape.MapOrder)
	verifseam.SetMainOrder(order, arg)
	c.Knobs["maporder"] = fmt.Sprint(order)
	if order != verifseam.OrderAsc {
		c.faults["maporder."+[]string{"asc", "desc", "rotate", "shuffle"}[order]]++
	}
	defer func() {
		verifseam.SetMainOrder(verifseam.OrderAsc, 0)
		if r := recover(); r != nil {
			if vp, ok := r.(violationPanic); ok {
				viol = vp.v
				return
			}
			if _, ok := r.(mutedPanic); ok {
				return
			}
			// a panic that escaped the simulation is a harness bug or an unexpected library panic:
			// report it loudly as its own class so it is never silently dropped
			viol = &Violation{Property: prop, Class: "harness-panic", Signature: "harness-panic", Detail: fmt.Sprintf("unexpected panic in simulation: %v\n%s", r, stackTrace())}
		}
	}()
	se.fn(c)
	canaryCheck(c)
	return nil, c
}

type outLine struct {
	T      string       `json:"t"`
	I      uint64       `json:"i"`
	H      string       `json:"h,omitempty"`
	Sim    string       `json:"sim,omitempty"`
	Viol   *tape.Replay `json:"viol,omitempty"`
	File   string       `json:"file,omitempty"`
	Stats  *Stats       `json:"stats,omitempty"`
	Dist   int          `json:"distinct_nontrivial,omitempty"`
	Scheds int          `json:"distinct_schedules,omitempty"`
	States int          `json:"distinct_states,omitempty"`
	Cov    *Coverage    `json:"coverage,omitempty"`
	WallS  float64      `json:"wall_s,omitempty"`
	Msg    string       `json:"msg,omitempty"`
}

type Coverage struct {
	MapSites   map[string]int `json:"maporder_sites_hit"` // "site/order" -> count (>=2 keys)
	YieldSites int            `json:"yield_sites_hit"`
	YieldCalls uint64         `json:"yield_calls"`
}

func coverage() *Coverage {
	cv := &Coverage{MapSites: map[string]int{}}
	for s := 0; s < verifseam.MaxSites; s++ {
		for o := 0; o < verifseam.NumOrders; o++ {
			if n := verifseam.MapSiteHits[s][o]; n > 0 {
				cv.MapSites[fmt.Sprintf("%d/%d", s, o)] = int(n)
			}
		}
		if verifseam.YieldSiteHits[s] > 0 {
			cv.YieldSites++
		}
	}
	cv.YieldCalls = verifseam.YieldCalls
	return cv
}

func main() {
	if len(os.Args) < 2 {
		fmt.Fprintln(os.Stderr, "usage: simworker run|replay|try ...")
		os.Exit(2)
	}
	limitAddressSpace()
	canaryBaseline = canaryNow()
	switch os.Args[1] {
	case "run":
		cmdRun(os.Args[2:])
	case "replay", "try":
		cmdReplay(os.Args[1], os.Args[2:])
	default:
		fmt.Fprintln(os.Stderr, "unknown subcommand")
		os.Exit(2)
	}
}

func cmdRun(args []string) {
	fs := flag.NewFlagSet("run", flag.ExitOnError)
	prop := fs.String("prop", "", "property id")
	seed := fs.Uint64("seed", 1, "VERIF_SEED")
	from := fs.Uint64("from", 0, "first run index")
	n := fs.Uint64("n", 100, "number of runs")
	tier := fs.String("tier", "quick", "tier")
	out := fs.String("out", "", "result file (JSON lines)")
	replays := fs.String("replays", "", "directory for replay files")
	budget := fs.Duration("budget", 0, "stop after this wall time (0 = none)")
	maxViol := fs.Int("maxviol", 5, "stop after this many distinct violations")
	shrinkTests := fs.Int("shrink", 1500, "maximum shrink attempts per violation")
	onlySim := fs.String("sim", "", "restrict to one simulation")
	cpuProf := fs.String("cpuprofile", "", "write a CPU profile here (developer aid)")
	dumpTape := fs.String("dumptape", "", "write the planned tape of each run here before executing it (process-level failure attribution)")
	fs.Parse(args)
	if *cpuProf != "" {
		if pf, err := os.Create(*cpuProf); err == nil {
			pprof.StartCPUProfile(pf)
			defer pprof.StopCPUProfile()
		}
	}
	if _, ok := registry[*prop]; !ok {
		fmt.Fprintf(os.Stderr, "simworker: no simulation registered for %q\n", *prop)
		os.Exit(2)
	}
	f, err := os.OpenFile(*out, os.O_CREATE|os.O_WRONLY|os.O_APPEND, 0o644)
	if err != nil {
		fmt.Fprintln(os.Stderr, err)
		os.Exit(2)
	}
	emit := func(l outLine) {
		b, _ := json.Marshal(l)
		f.Write(append(b, '\n'))
	}
	st := NewStats()
	t0 := time.Now()
	seenSig := map[string]bool{}
	nviol := 0
	// watchdog: a single run that takes longer than this is a stuck run; the process exits with a
	// distinctive status so that the driver can attribute it to the run index (never a clock read
	// that influences the simulation itself)
	runTimeout := 120 * time.Second
	if v := os.Getenv("VERIF_RUN_TIMEOUT"); v != "" {
		if d, err := time.ParseDuration(v); err == nil {
			runTimeout = d
		}
	}
	var runStart atomic.Int64
	go func() {
		for {
			time.Sleep(500 * time.Millisecond)
			if s := runStart.Load(); s != 0 && time.Since(time.Unix(0, s)) > runTimeout {
				fmt.Fprintf(os.Stderr, "simworker: run exceeded %v\n", runTimeout)
				os.Exit(78)
			}
		}
	}()
	for i := *from; i < *from+*n; i++ {
		if *budget > 0 && time.Since(t0) > *budget {
			break
		}
		runStart.Store(time.Now().UnixNano())
		se := pickSim(*prop, i)
		if *onlySim != "" {
			var ok bool
			if se, ok = findSim(*prop, *onlySim); !ok {
				os.Exit(2)
			}
		}
		emit(outLine{T: "start", I: i, Sim: se.name})
		sub := tape.SubSeed(*seed, *prop, i)
		src := tape.NewRecorder(sub)
		if *dumpTape != "" {
			dumpFile, dumpI, dumpSim := *dumpTape, i, se.name
			onPlanned = func(c *Ctx) {
				rp := &tape.Replay{Property: *prop, Sim: dumpSim, Seed: *seed, Index: dumpI, SubSeed: sub, Tier: *tier, Knobs: c.Knobs,
					Tape: c.Src.Recorded(), Trace: c.Trace, Extra: map[string]string{"check_property": *prop}}
				rp.Write(dumpFile)
			}
		}
		viol, c := runOne(*prop, se, *tier, src, st)
		st.Absorb(c)
		if len(st.Samples) < 3 && c.nonTrivial && len(c.Trace) > 0 {
			tr := c.Trace
			if len(tr) > 25 {
				tr = tr[:25]
			}
			st.Samples = append(st.Samples, map[string]interface{}{"sim": c.Sim, "index": i, "events": tr})
		}
		if viol == nil {
			emit(outLine{T: "done", I: i, H: c.EventHash()})
			continue
		}
		// minimise in-process, then verify that the minimised tape replays to the same class and event hash
		orig := src.Recorded()
		class := viol.Class + "|" + viol.Property
		test := func(t *tape.Tape) bool {
			if *budget > 0 && time.Since(t0) > *budget+8*time.Second {
				return false // out of time: keep the smallest failing tape found so far (it is re-verified below)
			}
			runStart.Store(time.Now().UnixNano()) // the watchdog is per execution, not per run index
			v, _ := runOne(*prop, se, *tier, tape.NewReplayer(t), NewStats())
			return v != nil && v.Class+"|"+v.Property == class
		}
		origOK := func() bool {
			runStart.Store(time.Now().UnixNano())
			v, _ := runOne(*prop, se, *tier, tape.NewReplayer(orig), NewStats())
			return v != nil && v.Class+"|"+v.Property == class
		}
		stateful := viol.Class == "process-state-changed" // nothing executed in this process can be trusted any more
		noisy := viol.Class == "excessive-allocation"     // decided on a measured quantity: failing to reproduce is inconclusive, not a harness fault
		if stateful || !origOK() {
			if noisy {
				emit(outLine{T: "inconclusive", I: i, Msg: viol.Detail})
				continue
			}
			// Re-executing the same tape in this process did not fail the same way. The run itself is a
			// pure function of its tape, so the process must carry state over from one execution to
			// the next - which is what C20 forbids the library to have. The driver decides: it replays
			// the recorded tape in a fresh process; this process is no longer trustworthy and exits.
			rp := &tape.Replay{Property: viol.Property, Sim: se.name, Seed: *seed, Index: i, SubSeed: sub, Tier: *tier, Knobs: c.Knobs,
				Class: viol.Class, Signature: viol.Signature, Detail: viol.Detail, EventHash: c.EventHash(), Tape: orig,
				OrigLen: orig.Len(), MinLen: orig.Len(), Trace: c.Trace,
				Extra: map[string]string{"check_property": *prop, "needs_fresh_process": "1"}}
			file := ""
			if *replays != "" {
				file = filepath.Join(*replays, fmt.Sprintf("%s-%s-%d-%d.json", *prop, se.name, *seed, i))
				if err := rp.Write(file); err != nil {
					fmt.Fprintln(os.Stderr, err)
					os.Exit(2)
				}
			}
			emit(outLine{T: "suspect", I: i, Sim: se.name, Viol: rp, File: file})
			f.Close()
			os.Exit(79)
		}
		nShrink := *shrinkTests
		if *prop == "C17" && nShrink > 250 {
			nShrink = 250 // decodes of hostile records can be slow; tapes here are short
		}
		if *prop == "C20" && nShrink > 400 {
			nShrink = 400 // five executions per attempt, two of them under the race detector
		}
		min, tests := tape.Shrink(orig, test, nShrink)
		runStart.Store(time.Now().UnixNano())
		v1, c1 := runOne(*prop, se, *tier, tape.NewReplayer(min), NewStats())
		v2, c2 := runOne(*prop, se, *tier, tape.NewReplayer(min), NewStats())
		if v1 == nil || v2 == nil || c1.EventHash() != c2.EventHash() || v1.Class != v2.Class {
			if noisy {
				emit(outLine{T: "inconclusive", I: i, Msg: viol.Detail})
				continue
			}
			emit(outLine{T: "nondeterministic", I: i, Msg: "minimised tape does not replay identically: " + viol.Detail})
			continue
		}
		rp := &tape.Replay{Property: v1.Property, Sim: se.name, Seed: *seed, Index: i, SubSeed: sub, Tier: *tier, Knobs: c1.Knobs,
			Class: v1.Class, Signature: v1.Signature, Detail: v1.Detail, EventHash: c1.EventHash(), Tape: c1.Src.Recorded(),
			OrigLen: orig.Len(), MinLen: c1.Src.Recorded().Len(), Shrinks: tests, Trace: c1.Trace,
			Extra: map[string]string{"check_property": *prop}}
		file := ""
		if *replays != "" {
			file = filepath.Join(*replays, fmt.Sprintf("%s-%s-%d-%d.json", *prop, se.name, *seed, i))
			if err := rp.Write(file); err != nil {
				fmt.Fprintln(os.Stderr, err)
				os.Exit(2)
			}
		}
		emit(outLine{T: "viol", I: i, Sim: se.name, Viol: rp, File: file})
		key := v1.Property + "|" + v1.Class + "|" + v1.Signature
		if !seenSig[key] {
			seenSig[key] = true
			nviol++
		}
		if nviol >= *maxViol {
			break
		}
	}
	emit(outLine{T: "stats", Stats: st, Dist: len(st.Distinct), Scheds: len(st.Schedules), States: len(st.States), Cov: coverage(), WallS: time.Since(t0).Seconds()})
	f.Close()
	dumpCoverage()
}

func cmdReplay(mode string, args []string) {
	fs := flag.NewFlagSet(mode, flag.ExitOnError)
	file := fs.String("file", "", "replay file")
	quiet := fs.Bool("q", false, "quiet")
	fs.Parse(args)
	rp, err := tape.ReadReplay(*file)
	if err != nil {
		fmt.Fprintln(os.Stderr, err)
		os.Exit(2)
	}
	prop := rp.Extra["check_property"]
	if prop == "" {
		prop = rp.Property
	}
	confirmMode = true
	se, ok := findSim(prop, rp.Sim)
	if !ok {
		fmt.Fprintf(os.Stderr, "simworker: unknown simulation %s/%s\n", prop, rp.Sim)
		os.Exit(2)
	}
	v, c := runOne(prop, se, rp.Tier, tape.NewReplayer(rp.Tape), NewStats())
	if v == nil {
		if !*quiet {
			fmt.Printf("replay: no violation (the recorded one was %s: %s)\n", rp.Class, firstLine(rp.Detail))
		}
		os.Exit(3)
	}
	same := v.Class == rp.Class && v.Property == rp.Property
	hashSame := c.EventHash() == rp.EventHash
	if !*quiet {
		fmt.Printf("replay: property=%s class=%s signature=%s same_class=%t same_event_hash=%t\n", v.Property, v.Class, v.Signature, same, hashSame)
		fmt.Println(v.Detail)
		fmt.Println("--- trace")
		fmt.Println(strings.Join(c.Trace, "\n"))
	}
	if mode == "try" {
		if same {
			os.Exit(0)
		}
		os.Exit(3)
	}
	if same && hashSame {
		os.Exit(1) // the violation reproduced exactly
	}
	os.Exit(3)
}

func firstLine(s string) string {
	if i := strings.IndexByte(s, '\n'); i >= 0 {
		return s[:i]
	}
	return s
}

func stackTrace() string {
	buf := make([]byte, 8192)
	n := runtimeStack(buf)
	return string(buf[:n])
}

func sortedKeys(m map[string]int) []string {
	k := make([]string, 0, len(m))
	for x := range m {
		k = append(k, x)
	}
	sort.Strings(k)
	return k
}

// limitAddressSpace applies VERIF_RLIMIT_AS (bytes) so that an absurd allocation kills the worker
// deterministically instead of depending on the host's overcommit policy (C17 workers only; a
// race-detector build cannot live under such a limit and never gets one).
func limitAddressSpace() {
	v := os.Getenv("VERIF_RLIMIT_AS")
	if v == "" {
		return
	}
	var n uint64
	fmt.Sscan(v, &n)
	if n > 0 {
		setRlimitAS(n)
		// ... and the same for the stack: a decoder whose recursion depth is decided by the input dies at 32 MiB of
		// stack (a few hundred thousand levels) instead of Go's default of 1 GB (eight million levels, records of
		// tens of megabytes). Legitimate recursion - the target type's depth, what encoding/json allows - needs a
		// fraction of that.
		debug.SetMaxStack(32 << 20)
	}
}
