package main

// The C06 monitor and the oracles shared by all simulations (DESIGN.md §4):
// every value any simulation obtains from the library goes through observe().

import (
	"fmt"
	"sort"
	"strconv"
	"strings"

	"github.com/zclconf/go-cty/cty"
)

// observe is the single funnel: every value obtained from the library passes through it.
func observe(c *Ctx, v cty.Value, producer string) {
	if v == cty.NilVal {
		return // the documented "no value" placeholder accompanying an error
	}
	c.Stats.Values++
	c.Stats.Producers[producer]++
	if err := cty.VerifWellFormed(v); err != nil {
		c.Fail("C06", "malformed-internal", "hook:"+producer+":"+wfClass(err.Error()),
			"value returned by %s is not well-formed (internal check): %v\nvalue: %s", producer, err, safeGoString(v))
	}
	if msg := checkPublic(v, 0); msg != "" {
		c.Fail("C06", "malformed-public", "public:"+producer+":"+wfClass(msg),
			"value returned by %s is not well-formed (public accessors): %s\nvalue: %s", producer, msg, safeGoString(v))
	}
}

// wfClass reduces a well-formedness message to a stable class for known-finding matching.
func wfClass(msg string) string {
	for _, k := range []string{"optional-attribute", "nested marker", "marker with no marks", "not NFC-normalized", "two equal members",
		"marked value inside a set", "admit nothing", "out of order", "length bounds", "payload", "refinement", "stored in bucket", "panic"} {
		if strings.Contains(msg, k) {
			return k
		}
	}
	if len(msg) > 40 {
		msg = msg[:40]
	}
	return msg
}

func safeGoString(v cty.Value) (s string) {
	defer func() {
		if r := recover(); r != nil {
			s = fmt.Sprintf("<GoString panicked: %v>", r)
		}
	}()
	s = v.GoString()
	if len(s) > 800 {
		s = s[:800] + "…"
	}
	return s
}

func typeHasOptional(t cty.Type) bool {
	switch {
	case t.IsObjectType():
		if len(t.OptionalAttributes()) > 0 {
			return true
		}
		for _, at := range t.AttributeTypes() {
			if typeHasOptional(at) {
				return true
			}
		}
	case t.IsCollectionType():
		return typeHasOptional(t.ElementType())
	case t.IsTupleType():
		for _, et := range t.TupleElementTypes() {
			if typeHasOptional(et) {
				return true
			}
		}
	}
	return false
}

// checkPublic is the validity walk through public accessors only.
func checkPublic(v cty.Value, depth int) (msg string) {
	defer func() {
		if r := recover(); r != nil {
			msg = fmt.Sprintf("accessor panic: %v", r)
		}
	}()
	ty := v.Type()
	if ty == cty.NilType {
		return "value has NilType"
	}
	if depth == 0 && typeHasOptional(ty) {
		return fmt.Sprintf("type carries optional-attribute annotations: %#v", ty)
	}
	if v.IsMarked() {
		u, marks := v.Unmark()
		if len(marks) == 0 {
			return "marker with no marks"
		}
		if u.IsMarked() {
			return "nested marker: Unmark returned a marked value"
		}
		v = u
	}
	if v.IsNull() {
		return ""
	}
	if !v.IsKnown() {
		r := v.Range()
		if !r.TypeConstraint().Equals(ty) {
			return "range type constraint differs from the value's type"
		}
		_ = r.CouldBeNull()
		switch {
		case ty == cty.Number:
			lo, _ := r.NumberLowerBound()
			hi, _ := r.NumberUpperBound()
			if lo.IsMarked() || hi.IsMarked() || lo.IsNull() || hi.IsNull() {
				return "numeric bound is marked or null"
			}
			if lo.IsKnown() && hi.IsKnown() && lo.GreaterThan(hi).True() {
				return fmt.Sprintf("numeric bounds out of order: %#v > %#v", lo, hi)
			}
		case ty == cty.String:
			p := r.StringPrefix()
			if cty.NormalizeString(p) != p {
				return fmt.Sprintf("refined prefix %q is not NFC-normalized", p)
			}
		case ty.IsCollectionType():
			lo, hi := r.LengthLowerBound(), r.LengthUpperBound()
			if lo < 0 || hi < lo {
				return fmt.Sprintf("length bounds %d..%d", lo, hi)
			}
		}
		return ""
	}
	switch {
	case ty == cty.DynamicPseudoType:
		return "known non-null value of the dynamic pseudo-type"
	case ty == cty.String:
		s := v.AsString()
		if cty.NormalizeString(s) != s {
			return fmt.Sprintf("string %q is not NFC-normalized", s)
		}
	case ty == cty.Number:
		if v.AsBigFloat() == nil {
			return "AsBigFloat returned nil"
		}
	case ty == cty.Bool:
		_ = v.True()
	case ty.IsListType() || ty.IsSetType() || ty.IsTupleType():
		n := v.LengthInt()
		elems := v.AsValueSlice()
		if len(elems) != n {
			return fmt.Sprintf("LengthInt %d but AsValueSlice has %d", n, len(elems))
		}
		if ty.IsTupleType() {
			etys := ty.TupleElementTypes()
			if len(etys) != n {
				return fmt.Sprintf("tuple has %d elements but its type has %d", n, len(etys))
			}
			for i, e := range elems {
				if !e.Type().Equals(etys[i]) {
					return fmt.Sprintf("tuple element %d has type %#v, declared %#v", i, e.Type(), etys[i])
				}
			}
		} else {
			ety := ty.ElementType()
			for i, e := range elems {
				if !e.Type().Equals(ety) {
					return fmt.Sprintf("element %d has type %#v, declared %#v", i, e.Type(), ety)
				}
			}
		}
		cnt := 0
		for it := v.ElementIterator(); it.Next(); {
			_, ev := it.Element()
			if cnt < len(elems) && ty.IsSetType() && !ev.RawEquals(elems[cnt]) {
				return "set iteration order is not stable between two iterations"
			}
			cnt++
		}
		if cnt != n {
			return fmt.Sprintf("iterator yields %d elements, length is %d", cnt, n)
		}
		for i, e := range elems {
			if ty.IsSetType() {
				if e.ContainsMarked() {
					return "marked value inside a set"
				}
				for j := i + 1; j < len(elems); j++ {
					if eq := e.Equals(elems[j]); eq.IsKnown() && eq.True() {
						return fmt.Sprintf("set holds two equal members: %#v and %#v", e, elems[j])
					}
				}
			}
			if m := checkPublic(e, depth+1); m != "" {
				return fmt.Sprintf("[%d]: %s", i, m)
			}
		}
	case ty.IsMapType():
		m := v.AsValueMap()
		if len(m) != v.LengthInt() {
			return "LengthInt disagrees with AsValueMap"
		}
		keys := make([]string, 0, len(m))
		for k := range m {
			keys = append(keys, k)
		}
		sort.Strings(keys)
		ety := ty.ElementType()
		for _, k := range keys {
			if cty.NormalizeString(k) != k {
				return fmt.Sprintf("map key %q is not NFC-normalized", k)
			}
			if !m[k].Type().Equals(ety) {
				return fmt.Sprintf("map element %q has type %#v, declared %#v", k, m[k].Type(), ety)
			}
			if mm := checkPublic(m[k], depth+1); mm != "" {
				return fmt.Sprintf("[%q]: %s", k, mm)
			}
		}
	case ty.IsObjectType():
		atys := ty.AttributeTypes()
		names := make([]string, 0, len(atys))
		for n := range atys {
			names = append(names, n)
		}
		sort.Strings(names)
		if got := len(v.AsValueMap()); got != len(names) {
			return fmt.Sprintf("object has %d attribute values but its type has %d", got, len(names))
		}
		for _, n := range names {
			if cty.NormalizeString(n) != n {
				return fmt.Sprintf("attribute name %q is not NFC-normalized", n)
			}
			av := v.GetAttr(n)
			if !av.Type().Equals(atys[n]) {
				return fmt.Sprintf("attribute %q has type %#v, declared %#v", n, av.Type(), atys[n])
			}
			if mm := checkPublic(av, depth+1); mm != "" {
				return fmt.Sprintf(".%s: %s", n, mm)
			}
		}
	case ty.IsCapsuleType():
		if v.EncapsulatedValue() == nil {
			return "capsule holds nil"
		}
	default:
		return fmt.Sprintf("value of unsupported type %#v", ty)
	}
	if depth == 0 {
		_ = v.GoString()
		if !v.ContainsMarked() {
			_ = v.Hash()
		}
		_ = v.Range()
	}
	return ""
}

// fp is the internal structural fingerprint (hook).
func fp(v cty.Value) string { return cty.VerifFingerprint(v) + capsIdent(v.Type()) }

// fpType is the fingerprint of a type, with the identity of the capsule types in it.
func fpType(ty cty.Type) string { return cty.VerifFingerprintType(ty) + capsIdent(ty) }

// capsIdent names the capsule types inside ty by their identity (their index among the harness's capsule types):
// two capsule types of one name and one Go type print alike and are different types all the same.
func capsIdent(ty cty.Type) string {
	if ty == cty.NilType || ty.IsPrimitiveType() || ty == cty.DynamicPseudoType {
		return ""
	}
	var has func(t cty.Type) bool
	has = func(t cty.Type) bool {
		switch {
		case t.IsCapsuleType():
			return true
		case t.IsCollectionType():
			return has(t.ElementType())
		case t.IsTupleType():
			for _, et := range t.TupleElementTypes() {
				if has(et) {
					return true
				}
			}
		case t.IsObjectType():
			for _, at := range t.AttributeTypes() { // (an order-independent question)
				if has(at) {
					return true
				}
			}
		}
		return false
	}
	if !has(ty) {
		return ""
	}
	var out string
	var walk func(t cty.Type)
	walk = func(t cty.Type) {
		switch {
		case t.IsCapsuleType():
			id := "?"
			for i, ct := range capTypes {
				if ct.Equals(t) {
					id = strconv.Itoa(i)
				}
			}
			out += "#cap" + id
		case t.IsCollectionType():
			walk(t.ElementType())
		case t.IsTupleType():
			for _, et := range t.TupleElementTypes() {
				walk(et)
			}
		case t.IsObjectType():
			for _, n := range sortedAttrNames(t) {
				walk(t.AttributeType(n))
			}
		}
	}
	walk(ty)
	return out
}

// errClass compares errors by class, not text.
func errClass(err error) string {
	if err == nil {
		return "ok"
	}
	return fmt.Sprintf("err:%T", err)
}

// recoverClass turns a recovered panic into a result class.
func panicClass(r interface{}) string {
	// the class is the message up to its first argument: panic texts may list members in map
	// order ("inconsistent map element types (A then B)"), which is documented text, not a result
	s := fmt.Sprint(r)
	for i, ch := range s {
		if ch == '(' || ch == ':' || ch == '"' || ch == '%' || i >= 40 {
			s = s[:i]
			break
		}
	}
	return "panic:" + strings.TrimSpace(s)
}
