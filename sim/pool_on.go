//go:build verifpool

package main

import "sync"

// The simulation build's standard-library overlay (cmd/verif makeOverlay) adds sync.VerifPooling: false (the
// default) means sync.Pool never hands an object from one goroutine to another under the race detector.
const poolSwitchable = true

func setPooling(on bool) { sync.VerifPooling = on }
