package main

// C06 — every value the library returns is well-formed for its type.
// DESIGN.md §5-C06. The monitor (observe) is wired into every simulation; this file is its own
// command: the C20 world's sequential phase with the whole operation table enabled, every result
// and every member reached from it going through the monitor, plus constructor and conversion
// calls on awkward generated arguments (unnormalised keys, keys that collide after
// normalisation, already-marked members, nested placeholders, empty collections, optional
// attributes in conversion targets).

import (
	"fmt"

	"github.com/zclconf/go-cty/cty"
	"github.com/zclconf/go-cty/cty/convert"
	"github.com/zclconf/go-cty/cty/gocty"
)

func guardedValue(c *Ctx, producer string, fn func() cty.Value) {
	var v cty.Value
	var pan interface{}
	func() {
		defer func() { pan = recover() }()
		v = fn()
	}()
	c.API(producer)
	if pan != nil {
		c.Probe("c06.precondition-panic:" + producer)
		return
	}
	observe(c, v, producer)
	observeMembers(c, v, producer, 0)
}

// observeMembers sends every member reachable through iteration to the monitor as well (their
// own well-formedness is implied by the parent's deep check; this exercises the accessors that
// hand them out).
func observeMembers(c *Ctx, v cty.Value, producer string, depth int) {
	if depth > 2 {
		return
	}
	u, _ := v.Unmark()
	if u.IsNull() || !u.IsKnown() || !u.CanIterateElements() {
		return
	}
	n := 0
	for it := u.ElementIterator(); it.Next() && n < 6; n++ {
		k, ev := it.Element()
		observe(c, k, producer+":key")
		observe(c, ev, producer+":member")
		observeMembers(c, ev, producer, depth+1)
	}
}

func simC06Monitor(c *Ctx) {
	w := c20GenWorld(c)
	// ---- the whole operation table over the pool, sequentially
	t := &taskState{id: 0, w: w}
	nOps := 20 + c.G(60)
	for k := 0; k < nOps; k++ {
		in := opInst{op: c.G(len(opTable))}
		d := opTable[in.op]
		for j := 0; j < 3; j++ {
			in.a[j] = ref{true, c.G(len(w.vals))}
			if k > 0 && c.G(4) == 3 {
				in.a[j] = ref{false, c.G(k)}
			}
			in.p[j] = c.G(1 << 16)
		}
		r := execOp(t, in)
		t.push(r)
		c.API(d.name)
		for _, v := range r.vals {
			observe(c, v, "op:"+d.name)
			observeMembers(c, v, "op:"+d.name, 0)
		}
	}
	// ---- what existed before is still what it was built as (a value whose type was rewritten under it no longer
	// matches its own payload), and so is everything the operations returned
	for i, v := range w.vals {
		observe(c, v, fmt.Sprintf("pool value re-read after the operations (%d)", i))
	}
	for _, v := range t.results {
		if v != cty.NilVal {
			observe(c, v, "operation result re-read after later operations")
		}
	}
	// ---- constructors on awkward arguments
	pick := func() cty.Value { return w.vals[c.G(len(w.vals))] }
	sameType := func(v cty.Value) cty.Value {
		start := c.G(len(w.vals))
		for d := 0; d < len(w.vals); d++ {
			x := w.vals[(start+d)%len(w.vals)]
			if x.Type().Equals(v.Type()) {
				return x
			}
		}
		return v
	}
	nCons := 10 + c.G(30)
	for k := 0; k < nCons; k++ {
		a := pick()
		b := sameType(a)
		switch c.G(16) {
		case 0:
			guardedValue(c, "ListVal", func() cty.Value { return cty.ListVal([]cty.Value{a, b}) })
		case 1:
			guardedValue(c, "SetVal", func() cty.Value { return cty.SetVal([]cty.Value{a, b, a}) })
		case 2:
			guardedValue(c, "TupleVal", func() cty.Value { return cty.TupleVal([]cty.Value{a, pick(), pick()}) })
		case 3:
			k1, k2 := keyPool[c.G(len(keyPool))].raw, keyPool[c.G(len(keyPool))].raw
			guardedValue(c, "MapVal", func() cty.Value { return cty.MapVal(map[string]cty.Value{k1: a, k2: b}) })
			c.Fired("awkward.unnormalized-key")
		case 4:
			// two spellings of one key
			guardedValue(c, "MapVal", func() cty.Value { return cty.MapVal(map[string]cty.Value{"é": a, "é": b, "Å": a}) })
			guardedValue(c, "ObjectVal", func() cty.Value { return cty.ObjectVal(map[string]cty.Value{"é": a, "é": pick(), "Å": pick()}) })
			c.Fired("awkward.colliding-keys")
		case 5:
			k1 := keyPool[c.G(len(keyPool))].raw
			guardedValue(c, "ObjectVal", func() cty.Value { return cty.ObjectVal(map[string]cty.Value{k1: a, "zz": pick()}) })
			c.Fired("awkward.unnormalized-key")
		case 6:
			// typed next to placeholder members
			guardedValue(c, "ListVal", func() cty.Value { return cty.ListVal([]cty.Value{cty.DynamicVal, a, cty.DynamicVal}) })
			guardedValue(c, "MapVal", func() cty.Value { return cty.MapVal(map[string]cty.Value{"a": cty.DynamicVal, "b": a}) })
			guardedValue(c, "SetVal", func() cty.Value { return cty.SetVal([]cty.Value{cty.DynamicVal, a}) })
			c.Fired("awkward.placeholder-member")
		case 7:
			guardedValue(c, "ListVal", func() cty.Value { return cty.ListVal([]cty.Value{cty.NullVal(cty.DynamicPseudoType), a}) })
			c.Fired("awkward.placeholder-member")
		case 8:
			m1, m2 := markPool[c.G(len(markPool))], markPool[c.G(len(markPool))]
			guardedValue(c, "Mark", func() cty.Value { return a.Mark(m1).Mark(m2) })
			guardedValue(c, "WithMarks", func() cty.Value { return a.Mark(m1).WithMarks(cty.NewValueMarks(m2), nil, cty.NewValueMarks()) })
			guardedValue(c, "WithSameMarks", func() cty.Value { return a.WithSameMarks(b.Mark(m1), pick()) })
			c.Fired("awkward.already-marked")
		case 9:
			m1 := markPool[c.G(len(markPool))]
			guardedValue(c, "SetVal", func() cty.Value { return cty.SetVal([]cty.Value{a.Mark(m1), b}) })
			guardedValue(c, "ListVal", func() cty.Value { return cty.ListVal([]cty.Value{a.Mark(m1), b.Mark("m2")}).Mark(m1) })
			c.Fired("awkward.already-marked")
		case 10:
			ty := a.Type()
			guardedValue(c, "ListValEmpty", func() cty.Value { return cty.ListValEmpty(ty) })
			guardedValue(c, "SetValEmpty", func() cty.Value { return cty.SetValEmpty(ty) })
			guardedValue(c, "MapValEmpty", func() cty.Value { return cty.MapValEmpty(ty) })
			guardedValue(c, "NullVal", func() cty.Value { return cty.NullVal(ty) })
			guardedValue(c, "UnknownVal", func() cty.Value { return cty.UnknownVal(ty) })
		case 11, 12, 13:
			// conversion to drawn constraints, optional attributes included
			ty := w.types[c.G(len(w.types))]
			if c.G(2) == 0 {
				// a target derived from the value's own type: kind swaps between sequence kinds and
				// between mapping kinds, placeholders, optional attributes, dropped and added attributes
				i := c.G(len(w.descs))
				a = w.vals[i]
				ty = deriveType(c, w.descs[i].T, 2).Cty()
				c.Fired("awkward.derived-conversion-target")
			}
			var r cty.Value
			var err error
			var pan interface{}
			func() {
				defer func() { pan = recover() }()
				if c.G(2) == 0 {
					r, err = convert.Convert(a, ty)
				} else if conv := convert.GetConversionUnsafe(a.Type(), ty); conv != nil {
					r, err = conv(a)
				} else {
					err = fmt.Errorf("no conversion")
				}
			}()
			c.API("convert.Convert")
			if pan != nil {
				// totality of conversion is property C08 (not decided by this work): counted, never reported
				c.Probe("c06.conversion-panicked(C08,not-claimed)")
			}
			if err == nil && pan == nil {
				observe(c, r, "convert.Convert")
				observeMembers(c, r, "convert.Convert", 0)
				if errs := r.Type().TestConformance(ty); len(errs) > 0 {
					// conformance of conversion results is property C08 (a pure function of value and type,
					// not decided by this work); the monitor only counts it
					c.Probe("c06.conversion-result-does-not-conform(C08,not-claimed)")
				}
				c.Probe("c06.converted")
				if typeHasOptional(ty) {
					c.Probe("c06.converted-to-optional-target")
				}
			}
		case 14:
			// unification and the conversions it hands out
			tys := []cty.Type{a.Type(), pick().Type(), w.types[c.G(len(w.types))].WithoutOptionalAttributesDeep()}
			nt := 2 + c.G(2)
			func() {
				defer func() {
					if recover() != nil {
						c.Probe("c06.unify-conversion-panicked(C09,not-claimed)")
					}
				}()
				ty, convs := convert.UnifyUnsafe(tys[:nt])
				c.API("convert.UnifyUnsafe")
				if ty != cty.NilType && convs[0] != nil {
					if r, err := convs[0](a); err == nil {
						observe(c, r, "convert.Unify conversion")
					}
				}
			}()
		case 15:
			ua, _ := a.UnmarkDeep()
			ty := ua.Type()
			var out cty.Value
			if err := gocty.FromCtyValue(ua, &out); err == nil {
				observe(c, out, "gocty.FromCtyValue")
			}
			if r, err := gocty.ToCtyValue(ua, ty); err == nil {
				observe(c, r, "gocty.ToCtyValue")
			}
			c.API("gocty")
		}
	}
	c.AddShape(fmt.Sprintf("pool=%d ops=%d cons=%d", len(w.vals), nOps, nCons))
	c.NonTrivial()
}
