package main

// C20: type-directed calls of the whole function library. The untyped StdlibCall operations hand
// arbitrary pool values to a function and mostly exercise its argument checks; this operation
// chooses, per function, shared pool values of the kinds the function accepts (and small constants
// for patterns, format strings, timestamps and the like), so that the implementations themselves
// run - on shared values, repeatedly, under other map orders and concurrently.

import (
	"fmt"
	"os"
	"strings"

	"github.com/zclconf/go-cty/cty"
	"github.com/zclconf/go-cty/cty/function"
	"github.com/zclconf/go-cty/cty/function/stdlib"
)

type typedSpec struct {
	name string
	f    function.Function
	args string // one letter per argument, see typedArg
}

var (
	c20Patterns  = []string{"[a-z]+", "(?P<first>\\w)(\\w*)", "e", "(a)|(b)", "^$", "\\pL", "x*", "(?i)hello", "["}
	c20Formats   = []string{"%s", "%v-%v", "%05d", "%q", "%#v", "%[2]s %[1]s", "%d%%", "%10.3f|%-8s|", "%t", "%", "%j"}
	c20DateFmts  = []string{"YYYY-MM-DD", "hh:mm:ss ZZZ", "EEEE, D MMMM YY", "'at' h AA", "M/D/YYYY", "YYYY-MM-DD'T'hh:mm:ssZ", "q"}
	c20Stamps    = []string{"2020-02-29T23:59:59Z", "1999-12-31T00:00:00+09:00", "2026-09-29T12:00:00.5-03:30", "not a timestamp", "2020-13-01T00:00:00Z"}
	c20Durations = []string{"1h", "-90m", "24h30m", "1.5s", "forever", "0"}
	c20IntTexts  = []string{"42", "-7", "ff", "0x1f", "101", "zz", "", "9223372036854775808", "1_000"}
	c20CSVs      = []string{"a,b\n1,2\n3,4\n", "k\n", "a,b\n1\n", "x,x\n1,2\n", "", "\"q\"\"q\",r\nv,w\n"}
	c20JSONs     = []string{`{"a":[1,2.5,"x",null,true],"b":{"c":[]}}`, `[]`, `[1,"a"]`, `"s"`, `1e400`, `{"a":1,"a":2}`, `{`, `null`}
	c20Bytes     = []cty.Value{stdlib.BytesVal([]byte("hello world")), stdlib.BytesVal([]byte{}), stdlib.BytesVal([]byte{0, 1, 2, 3})}

	c20ToFuncs = []function.Function{stdlib.MakeToFunc(cty.String), stdlib.MakeToFunc(cty.Number), stdlib.MakeToFunc(cty.Bool),
		stdlib.MakeToFunc(cty.List(cty.String)), stdlib.MakeToFunc(cty.Set(cty.DynamicPseudoType)), stdlib.MakeToFunc(cty.Map(cty.String)),
		stdlib.MakeToFunc(cty.DynamicPseudoType),
		// "any type constraint that the convert package would accept": optional attributes included
		stdlib.MakeToFunc(cty.ObjectWithOptionalAttrs(map[string]cty.Type{"a": cty.String, "b": cty.Number, "c": cty.Number}, []string{"b", "c"})),
		stdlib.MakeToFunc(cty.List(cty.ObjectWithOptionalAttrs(map[string]cty.Type{"a": cty.String, "zz": cty.Bool}, []string{"zz"}))),
		stdlib.MakeToFunc(cty.Map(cty.ObjectWithOptionalAttrs(map[string]cty.Type{"k": cty.DynamicPseudoType, "opt": cty.String}, []string{"opt"})))}
)

var typedSpecs = []typedSpec{
	{"upper", stdlib.UpperFunc, "s"}, {"lower", stdlib.LowerFunc, "s"}, {"reverse", stdlib.ReverseFunc, "s"}, {"strlen", stdlib.StrlenFunc, "s"},
	{"title", stdlib.TitleFunc, "s"}, {"trimspace", stdlib.TrimSpaceFunc, "s"}, {"chomp", stdlib.ChompFunc, "s"},
	{"substr", stdlib.SubstrFunc, "sII"}, {"join", stdlib.JoinFunc, "sl"}, {"joinmany", stdlib.JoinFunc, "sll"}, {"sort", stdlib.SortFunc, "l"},
	{"split", stdlib.SplitFunc, "ss"}, {"splitconst", stdlib.SplitFunc, "Es"}, {"indent", stdlib.IndentFunc, "Is"}, {"trim", stdlib.TrimFunc, "ss"},
	{"trimprefix", stdlib.TrimPrefixFunc, "ss"}, {"trimsuffix", stdlib.TrimSuffixFunc, "ss"}, {"replace", stdlib.ReplaceFunc, "sss"},
	{"replaceconst", stdlib.ReplaceFunc, "sEs"}, {"regex", stdlib.RegexFunc, "Ps"}, {"regexall", stdlib.RegexAllFunc, "Ps"},
	{"regexreplace", stdlib.RegexReplaceFunc, "sPs"}, {"format1", stdlib.FormatFunc, "Fa"}, {"format2", stdlib.FormatFunc, "Fsn"},
	{"format3", stdlib.FormatFunc, "Fna"}, {"formatlist", stdlib.FormatListFunc, "Fls"}, {"formatlist2", stdlib.FormatListFunc, "Flq"},
	{"formatdate", stdlib.FormatDateFunc, "DT"}, {"timeadd", stdlib.TimeAddFunc, "TU"}, {"parseint", stdlib.ParseIntFunc, "NB"},
	{"log", stdlib.LogFunc, "nn"}, {"pow", stdlib.PowFunc, "nI"}, {"ceil", stdlib.CeilFunc, "n"}, {"floor", stdlib.FloorFunc, "n"},
	{"int", stdlib.IntFunc, "n"}, {"signum", stdlib.SignumFunc, "n"}, {"min", stdlib.MinFunc, "nnn"}, {"max", stdlib.MaxFunc, "nn"},
	{"gte", stdlib.GreaterThanOrEqualToFunc, "nn"}, {"lte", stdlib.LessThanOrEqualToFunc, "nn"}, {"negate", stdlib.NegateFunc, "n"},
	{"abs", stdlib.AbsoluteFunc, "n"}, {"modulo", stdlib.ModuloFunc, "nn"}, {"divide", stdlib.DivideFunc, "nn"},
	{"byteslen", stdlib.BytesLenFunc, "Y"}, {"bytesslice", stdlib.BytesSliceFunc, "YII"},
	{"csvdecode", stdlib.CSVDecodeFunc, "C"}, {"jsondecode", stdlib.JSONDecodeFunc, "J"}, {"jsonencode", stdlib.JSONEncodeFunc, "a"},
	{"keys", stdlib.KeysFunc, "m"}, {"keyso", stdlib.KeysFunc, "o"}, {"values", stdlib.ValuesFunc, "m"}, {"valueso", stdlib.ValuesFunc, "o"},
	{"lookup", stdlib.LookupFunc, "msa"}, {"lookupo", stdlib.LookupFunc, "oKa"}, {"merge", stdlib.MergeFunc, "mm"}, {"mergeo", stdlib.MergeFunc, "oo"},
	{"mergemix", stdlib.MergeFunc, "mom"}, {"zipmap", stdlib.ZipmapFunc, "ll"}, {"zipmapt", stdlib.ZipmapFunc, "lt"}, {"element", stdlib.ElementFunc, "lI"},
	{"elementt", stdlib.ElementFunc, "tI"}, {"index", stdlib.IndexFunc, "lI"}, {"indexm", stdlib.IndexFunc, "mK"}, {"hasindex", stdlib.HasIndexFunc, "lI"},
	{"hasindexm", stdlib.HasIndexFunc, "mK"}, {"slice", stdlib.SliceFunc, "lII"}, {"slicet", stdlib.SliceFunc, "tII"}, {"chunklist", stdlib.ChunklistFunc, "lI"},
	{"flatten", stdlib.FlattenFunc, "l"}, {"flattent", stdlib.FlattenFunc, "t"}, {"flattene", stdlib.FlattenFunc, "e"}, {"compact", stdlib.CompactFunc, "l"},
	{"distinct", stdlib.DistinctFunc, "l"}, {"contains", stdlib.ContainsFunc, "la"}, {"containse", stdlib.ContainsFunc, "ea"},
	{"reverselist", stdlib.ReverseListFunc, "l"}, {"reverselistt", stdlib.ReverseListFunc, "t"}, {"coalescelist", stdlib.CoalesceListFunc, "ll"},
	{"coalescelistt", stdlib.CoalesceListFunc, "tl"}, {"concat", stdlib.ConcatFunc, "ll"}, {"concatt", stdlib.ConcatFunc, "tl"},
	{"setproduct", stdlib.SetProductFunc, "ee"}, {"setproductl", stdlib.SetProductFunc, "le"}, {"setunion", stdlib.SetUnionFunc, "ee"},
	{"setintersection", stdlib.SetIntersectionFunc, "ee"}, {"setsubtract", stdlib.SetSubtractFunc, "ee"},
	{"setsymdiff", stdlib.SetSymmetricDifferenceFunc, "ee"}, {"sethaselement", stdlib.SetHasElementFunc, "ea"}, {"range1", stdlib.RangeFunc, "I"},
	{"range3", stdlib.RangeFunc, "III"}, {"coalesce", stdlib.CoalesceFunc, "ss"}, {"coalescemix", stdlib.CoalesceFunc, "ans"},
	{"length", stdlib.LengthFunc, "q"}, {"lengthm", stdlib.LengthFunc, "m"}, {"equal", stdlib.EqualFunc, "aa"}, {"notequal", stdlib.NotEqualFunc, "aa"},
	{"and", stdlib.AndFunc, "bb"}, {"or", stdlib.OrFunc, "bb"}, {"not", stdlib.NotFunc, "b"}, {"assertnotnull", stdlib.AssertNotNullFunc, "a"},
	{"to0", c20ToFuncs[0], "a"}, {"to1", c20ToFuncs[1], "a"}, {"to2", c20ToFuncs[2], "a"}, {"to3", c20ToFuncs[3], "q"}, {"to4", c20ToFuncs[4], "q"},
	{"to5", c20ToFuncs[5], "o"}, {"to6", c20ToFuncs[6], "a"}, {"to7", c20ToFuncs[7], "o"}, {"to7a", c20ToFuncs[7], "a"}, {"to8", c20ToFuncs[8], "q"},
	{"to8a", c20ToFuncs[8], "a"}, {"to9", c20ToFuncs[9], "m"}, {"to9o", c20ToFuncs[9], "o"}, {"to9a", c20ToFuncs[9], "a"},
}

// typedArg chooses one argument: lower-case letters are shared pool values of a kind (falling back to any
// pool value when the pool has none), upper-case letters are small constants.
func typedArg(t *taskState, kind byte, r int) cty.Value {
	w := t.w
	pool := func(ks ...Kind) cty.Value {
		var cand []int
		for _, k := range ks {
			cand = append(cand, w.byKind[k]...)
		}
		if len(cand) == 0 {
			return w.vals[r%len(w.vals)]
		}
		return w.vals[cand[r%len(cand)]]
	}
	str := func(ss []string) cty.Value { return cty.StringVal(ss[r%len(ss)]) }
	switch kind {
	case 's':
		return pool(KString)
	case 'n':
		return pool(KNumber)
	case 'b':
		return pool(KBool)
	case 'l':
		return pool(KList)
	case 'm':
		return pool(KMap)
	case 'o':
		return pool(KObject)
	case 'e':
		return pool(KSet)
	case 't':
		return pool(KTuple)
	case 'q':
		return pool(KList, KTuple, KSet)
	case 'a':
		return w.vals[r%len(w.vals)]
	case 'I':
		return cty.NumberIntVal(int64(r%7) - 1)
	case 'B':
		return cty.NumberIntVal(int64([]int{10, 16, 2, 36, 1, 63}[r%6]))
	case 'E':
		return str([]string{",", "", "e", "́", "ab"})
	case 'K':
		return str([]string{"a", "k", "zz", "é", "é", "missing"})
	case 'P':
		return str(c20Patterns)
	case 'F':
		return str(c20Formats)
	case 'D':
		return str(c20DateFmts)
	case 'T':
		return str(c20Stamps)
	case 'U':
		return str(c20Durations)
	case 'N':
		return str(c20IntTexts)
	case 'C':
		return str(c20CSVs)
	case 'J':
		return str(c20JSONs)
	case 'Y':
		return c20Bytes[r%len(c20Bytes)]
	}
	return cty.DynamicVal
}

func init() {
	defOp("StdlibTyped", "", func(t *taskState, a [3]cty.Value, p [3]int) opRes {
		sp := typedSpecs[p[0]%len(typedSpecs)]
		args := make([]cty.Value, len(sp.args))
		for i := range args {
			args[i] = typedArg(t, sp.args[i], p[1]+i*(p[2]|1))
		}
		if p[2]%5 == 0 {
			// the type-level entry point on the same arguments first
			rt, err := sp.f.ReturnTypeForValues(args)
			if err != nil {
				return opRes{s: sp.name + ":type:" + errClass(err)}
			}
			r, err := sp.f.Call(args)
			if err != nil {
				return opRes{s: sp.name + ":" + errClass(err)}
			}
			return opRes{vals: []cty.Value{r}, s: sp.name + ":" + fpType(rt)}
		}
		r, err := sp.f.Call(args)
		if err != nil {
			return opRes{s: sp.name + ":" + errClass(err)}
		}
		return opRes{vals: []cty.Value{r}, s: sp.name}
	}, selAny)
	// a result of one library function handed to the next, twice, with different companions: results share
	// internals with their arguments (a slice of a tuple type, a type grown by concatenation), and the second
	// use must not disturb the first result, the intermediate value or the pool values they came from.
	// (Registered three times: chains are where this library's functions meet each other's results.)
	for _, name := range []string{"StdlibChain", "StdlibChainB", "StdlibChainC", "StdlibChainD"} {
		defOp(name, "", stdlibChain, selAny)
	}
	// the type-level entry point asked about two types that print alike and are different types (twin capsule types,
	// alone or inside structures): the answer for the one is the answer for the other with the types exchanged - whatever
	// was asked before
	defOp("ReturnTypeTwins", "", func(t *taskState, a [3]cty.Value, p [3]int) opRes {
		sp := typedSpecs[p[0]%len(typedSpecs)]
		mk := func(ct cty.Type) []cty.Type {
			tys := make([]cty.Type, len(sp.args))
			for i := range tys {
				switch sp.args[i] {
				case 'l':
					tys[i] = cty.List(ct)
				case 'e':
					tys[i] = cty.Set(ct)
				case 'm':
					tys[i] = cty.Map(ct)
				case 't':
					tys[i] = cty.Tuple([]cty.Type{ct, cty.String})
				case 'o':
					tys[i] = cty.Object(map[string]cty.Type{"a": ct, "b": cty.String})
				case 'q':
					tys[i] = []cty.Type{cty.List(ct), cty.Set(ct), cty.Tuple([]cty.Type{ct})}[p[1]%3]
				case 'a':
					tys[i] = []cty.Type{ct, cty.List(ct), cty.Object(map[string]cty.Type{"c": ct})}[p[2]%3]
				case 's', 'E', 'K', 'P', 'F', 'D', 'T', 'U', 'N', 'C', 'J':
					tys[i] = cty.String
				case 'n', 'I', 'B':
					tys[i] = cty.Number
				case 'b':
					tys[i] = cty.Bool
				default:
					tys[i] = cty.DynamicPseudoType
				}
			}
			return tys
		}
		first, second := capTypes[0], capTypes[2]
		if p[1]%2 == 1 {
			first, second = second, first
		}
		r1, err1 := sp.f.ReturnType(mk(first))
		r2, err2 := sp.f.ReturnType(mk(second))
		res := sres("%s %s %s", sp.name, errClass(err1), errClass(err2))
		if (err1 == nil) != (err2 == nil) {
			res.viol = fmt.Sprintf("%s.ReturnType succeeds for one of two twin capsule types and fails for the other: %v / %v", sp.name, err1, err2)
		} else if err1 == nil {
			i1, i2 := capsIdent(r1), capsIdent(r2)
			swap := strings.NewReplacer("#cap0", "#cap2", "#cap2", "#cap0")
			if swap.Replace(i1) != i2 || cty.VerifFingerprintType(r1) != cty.VerifFingerprintType(r2) {
				res.viol = fmt.Sprintf("%s.ReturnType answers %s%s for arguments built on one capsule type and %s%s for the same arguments built on its twin (same name and Go type, another type)", sp.name, r1.FriendlyName(), i1, r2.FriendlyName(), i2)
			}
			res.s += fpType(r1) + fpType(r2)
		}
		res.violClass = "impure-repeat"
		return res
	})
	// the objects derived from a shared Function: a re-described copy, its proxy, its unpredictable twin; the
	// shared original must describe itself as before afterwards
	defOp("FunctionWrappers", "", func(t *taskState, a [3]cty.Value, p [3]int) opRes {
		sp := typedSpecs[p[0]%len(typedSpecs)]
		args := make([]cty.Value, len(sp.args))
		for i := range args {
			args[i] = typedArg(t, sp.args[i], p[1]+i*(p[2]|1))
		}
		ps := sp.f.Params()
		descs := make([]string, len(ps))
		for i := range descs {
			descs[i] = "redescribed"
		}
		if sp.f.VarParam() != nil && p[2]%2 == 0 {
			descs = append(descs, "redescribed rest")
		}
		g := sp.f.WithNewDescriptions("redescribed function", descs)
		var r cty.Value
		var err error
		how := ""
		switch p[2] % 3 {
		case 0:
			r, err = g.Call(args)
			how = "redescribed"
		case 1:
			r, err = sp.f.Proxy()(args...)
			how = "proxy"
		default:
			r, err = function.Unpredictable(sp.f).Call(args)
			how = "unpredictable"
		}
		own := sp.f.Description()
		for _, q := range sp.f.Params() {
			own += "|" + q.Name + ":" + q.Description
		}
		if vp := sp.f.VarParam(); vp != nil {
			own += "|..." + vp.Name + ":" + vp.Description
		}
		if err != nil {
			return opRes{s: sp.name + ":" + how + ":" + errClass(err) + ":" + own}
		}
		return opRes{vals: []cty.Value{r}, s: sp.name + ":" + how + ":" + own + ":" + g.Description()}
	}, selAny)
}

// structuralSpecs: rows of the call table whose arguments include a sequence or a mapping - the functions whose
// result types are computed from argument types.
var structuralSpecs = func() (out []int) {
	for i, sp := range typedSpecs {
		if strings.ContainsAny(sp.args, "ltqemo") {
			out = append(out, i)
		}
	}
	return
}()

var debugChain = os.Getenv("VERIF_DEBUG_CHAIN") != ""

func stdlibChain(t *taskState, a [3]cty.Value, p [3]int) opRes {
	// first call: up to four rows are tried for a result with a structural type (tuple, object: types that
	// have internals of their own); what is known about a pool argument is sometimes only its type
	var sp typedSpec
	var r1 cty.Value
	var err error
	for try := 0; try < 4; try++ {
		q := mixInt(p[0], try)
		if q%3 != 0 {
			sp = typedSpecs[structuralSpecs[(q/3)%len(structuralSpecs)]]
		} else {
			sp = typedSpecs[(q/3)%len(typedSpecs)]
		}
		args := make([]cty.Value, len(sp.args))
		for i := range args {
			args[i] = typedArg(t, sp.args[i], p[1]+try+i*(p[2]|1))
			if sp.args[i] >= 'a' && sp.args[i] <= 'z' && (p[1]/3+i+try)%3 == 0 {
				if u, _ := args[i].Unmark(); u.Type() != cty.DynamicPseudoType {
					args[i] = cty.UnknownVal(u.Type())
				}
			}
		}
		r1, err = sp.f.Call(args)
		if err == nil {
			if ty := r1.Type(); ty.IsTupleType() || ty.IsObjectType() {
				break
			}
		}
	}
	if err != nil {
		return opRes{s: sp.name + ":" + errClass(err)}
	}
	ur1, _ := r1.Unmark()
	accepts := "a"
	switch ty := ur1.Type(); {
	case ty == cty.String:
		accepts += "s"
	case ty == cty.Number:
		accepts += "n"
	case ty == cty.Bool:
		accepts += "b"
	case ty.IsListType():
		accepts += "lq"
	case ty.IsMapType():
		accepts += "m"
	case ty.IsSetType():
		accepts += "eq"
	case ty.IsTupleType():
		accepts += "tq"
	case ty.IsObjectType():
		accepts += "o"
	}
	type slot struct{ spec, pos int }
	var slots []slot
	for si, s2 := range typedSpecs {
		for pos := 0; pos < len(s2.args); pos++ {
			if strings.IndexByte(accepts, s2.args[pos]) >= 0 && (s2.args[pos] != 'a' || (si+pos)%8 == 0) {
				slots = append(slots, slot{si, pos})
			}
		}
	}
	if ur1.IsKnown() && !ur1.IsNull() && (ur1.Type().IsCollectionType() || ur1.Type().IsTupleType()) && ur1.LengthInt() > 48 {
		// (products and repetitions of long collections grow without bound when chained)
		return opRes{vals: []cty.Value{r1}, s: sp.name + ":long"}
	}
	res := opRes{vals: []cty.Value{r1}, s: sp.name, violClass: "mutated-by-call"}
	fpMid := fp(r1)
	mid := r1
	if p[2]%2 == 1 {
		// what is known about the intermediate result is only its type (which it shares with the value)
		mid = cty.UnknownVal(ur1.Type())
	}
	// second call: two rows, each twice with other companions
	for round := 0; round < 2; round++ {
		sl := slots[mixInt(p[1], round)%len(slots)]
		if round == 0 {
			// the same function again, where its own result fits (concatenating a concatenation, merging a merge)
			for _, cand := range slots {
				if typedSpecs[cand.spec].name == sp.name {
					sl = cand
					break
				}
			}
		}
		sp2 := typedSpecs[sl.spec]
		res.s += ">" + sp2.name
		var first cty.Value
		var firstFP string
		for branch := 0; branch < 2; branch++ {
			args2 := make([]cty.Value, len(sp2.args))
			for i := range args2 {
				args2[i] = typedArg(t, sp2.args[i], p[2]/4+branch*5+round+i*(p[1]|1))
			}
			args2[sl.pos] = mid
			r2, err := sp2.f.Call(args2)
			if err != nil {
				res.s += ":" + errClass(err)
				continue
			}
			res.vals = append(res.vals, r2)
			if firstFP == "" {
				first, firstFP = r2, fp(r2)
			} else if res.viol == "" {
				if now := fp(first); now != firstFP {
					res.viol = fmt.Sprintf("the result of %s(%s result, ...) changed when %s was called again with the same intermediate value and other companions\nbefore: %s\nafter:  %s", sp2.name, sp.name, sp2.name, clip(firstFP), clip(now))
				}
			}
		}
	}
	if debugChain {
		fmt.Fprintf(os.Stderr, "CHAIN %s known=%t type=%s\n", res.s, ur1.IsKnown(), ur1.Type().FriendlyName())
	}
	if now := fp(r1); now != fpMid && res.viol == "" {
		res.viol = fmt.Sprintf("the result of %s changed when it was handed on (%s)\nbefore: %s\nafter:  %s", sp.name, res.s, clip(fpMid), clip(now))
	}
	return res
}

// mixInt spreads two small integers over the non-negative ints (a fixed multiplicative hash; no state).
func mixInt(a, b int) int {
	x := uint64(a)*0x9E3779B97F4A7C15 + uint64(b)*0xBF58476D1CE4E5B9
	x ^= x >> 31
	x *= 0x94D049BB133111EB
	x ^= x >> 29
	return int(x >> 2 & 0x3fffffff)
}
