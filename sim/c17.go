package main

// C17 — decoders are safe on arbitrary input: error or conforming value.
// DESIGN.md §5-C17. A simulated record store: valid encodings of generated values and types are
// written, the store then applies 1..4 storage faults (bit flip, overwrite, torn write, lost /
// duplicated sector, misdirected read, zero-fill, length-field edit, token damage, hostile
// refinement bodies) or serves pure noise, and the record is read back through all five decoders
// with target types equal to, derived from, or unrelated to the original.

import (
	"bytes"
	"encoding/binary"
	"fmt"
	"golang.org/x/text/unicode/norm"
	"math"
	"os"
	"runtime"
	"runtime/debug"
	"runtime/metrics"
	"strconv"
	"strings"
	"sync/atomic"

	"github.com/zclconf/go-cty/cty"
	ctyjson "github.com/zclconf/go-cty/cty/json"
	"github.com/zclconf/go-cty/cty/msgpack"
	"github.com/zclconf/go-cty/cty/verifseam"
)

const c17MaxRecord = 4096

type c17Record struct {
	codec string // json | jsontype | msgpack | noise | crafted
	data  []byte
	t     *TDesc // concrete type of the encoded value (nil for noise / crafted)
	enc   *TDesc // type constraint used for encoding
	desc  string
	alt   []*TDesc // further reading types that suit this record in particular
}

// generalize replaces drawn subtrees of a concrete type by the dynamic placeholder.
func generalize(c *Ctx, t *TDesc, p int) *TDesc {
	if c.G(p) == 0 {
		return tDynamic
	}
	switch t.K {
	case KList, KSet, KMap:
		return &TDesc{K: t.K, Elem: generalize(c, t.Elem, p)}
	case KTuple, KObject:
		n := &TDesc{K: t.K, Names: t.Names}
		for _, e := range t.Elems {
			n.Elems = append(n.Elems, generalize(c, e, p))
		}
		return n
	}
	return t
}

// deriveType edits a type: kind swaps between sequence kinds and between mapping kinds, element
// changes, inserted placeholders, optional attributes, dropped and added attributes.
func deriveType(c *Ctx, t *TDesc, p int) *TDesc {
	mutate := c.G(p) == 0
	rec := func(x *TDesc) *TDesc { return deriveType(c, x, p+1) }
	if mutate {
		switch c.G(8) {
		case 0:
			return tDynamic
		case 1:
			// (a capsule type is a legal JSON decoding target: the payload is decoded by encoding/json)
			return []*TDesc{tString, tNumber, tBool, {K: KCapsule, Cap: 0}, {K: KCapsule, Cap: 1}}[c.G(5)]
		case 2:
			switch t.K {
			case KList, KSet:
				return &TDesc{K: []Kind{KList, KSet, KMap}[c.G(3)], Elem: rec(t.Elem)}
			case KTuple:
				if len(t.Elems) > 0 {
					return &TDesc{K: []Kind{KList, KSet}[c.G(2)], Elem: rec(t.Elems[0])}
				}
			case KMap:
				return &TDesc{K: KObject, Names: []string{"a", "b"}, Elems: []*TDesc{rec(t.Elem), rec(t.Elem)}}
			case KObject:
				if len(t.Elems) > 0 {
					return &TDesc{K: KMap, Elem: rec(t.Elems[0])}
				}
			}
		case 3:
			if t.K == KList || t.K == KSet {
				n := c.G(4)
				tt := &TDesc{K: KTuple}
				for i := 0; i < n; i++ {
					tt.Elems = append(tt.Elems, rec(t.Elem))
				}
				return tt
			}
		case 4:
			if t.K == KObject && len(t.Names) > 0 {
				// optional attributes (a type constraint, legal as a decoding target)
				n := &TDesc{K: KObject, Names: t.Names, Optional: make([]bool, len(t.Names))}
				for i, e := range t.Elems {
					n.Elems = append(n.Elems, rec(e))
					n.Optional[i] = c.G(2) == 0
				}
				return n
			}
		case 5:
			if t.K == KObject {
				// one attribute more or less
				n := &TDesc{K: KObject}
				drop := -1
				if len(t.Names) > 0 && c.G(2) == 0 {
					drop = c.G(len(t.Names))
				}
				for i := range t.Names {
					if i != drop {
						n.Names = append(n.Names, t.Names[i])
						n.Elems = append(n.Elems, rec(t.Elems[i]))
					}
				}
				if drop < 0 {
					has := false
					for _, x := range n.Names {
						has = has || x == "zz"
					}
					if !has {
						n.Names = append(n.Names, "zz")
						n.Elems = append(n.Elems, tString)
					}
				}
				return n
			}
			if t.K == KTuple {
				n := &TDesc{K: KTuple}
				for _, e := range t.Elems {
					n.Elems = append(n.Elems, rec(e))
				}
				if len(n.Elems) > 0 && c.G(2) == 0 {
					n.Elems = n.Elems[:len(n.Elems)-1]
				} else {
					n.Elems = append(n.Elems, tNumber)
				}
				return n
			}
		}
	}
	switch t.K {
	case KList, KSet, KMap:
		return &TDesc{K: t.K, Elem: rec(t.Elem)}
	case KTuple, KObject:
		n := &TDesc{K: t.K, Names: t.Names, Optional: t.Optional}
		for _, e := range t.Elems {
			n.Elems = append(n.Elems, rec(e))
		}
		return n
	}
	return t
}

// ---------------------------------------------------------------------------
// a msgpack scanner of the checker's own, used to find length-bearing headers

type mpItem struct {
	off, hdr int    // offset and header length
	kind     string // array | map | str | bin | ext | other
	n        int    // declared length
	end      int    // offset just past the item (best effort)
}

func mpScan(b []byte) []mpItem {
	var items []mpItem
	var walk func(off, depth int) int
	walk = func(off, depth int) int {
		if off >= len(b) || depth > 80 || len(items) > 400 {
			return len(b)
		}
		code := b[off]
		be := func(o, n int) int {
			if o+n > len(b) {
				return -1
			}
			v := 0
			for i := 0; i < n; i++ {
				v = v<<8 | int(b[o+i])
			}
			return v
		}
		container := func(kind string, hdr, n int) int {
			if n < 0 {
				return len(b)
			}
			idx := len(items)
			items = append(items, mpItem{off: off, hdr: hdr, kind: kind, n: n})
			p := off + hdr
			cnt := n
			if kind == "map" {
				cnt = 2 * n
			}
			for i := 0; i < cnt && p < len(b); i++ {
				p = walk(p, depth+1)
			}
			items[idx].end = p
			return p
		}
		blob := func(kind string, hdr, n int) int {
			if n < 0 {
				return len(b)
			}
			end := off + hdr + n
			if end > len(b) {
				end = len(b)
			}
			items = append(items, mpItem{off: off, hdr: hdr, kind: kind, n: n, end: end})
			return end
		}
		switch {
		case code <= 0x7f || code >= 0xe0:
			items = append(items, mpItem{off: off, hdr: 1, kind: "other", end: off + 1})
			return off + 1
		case code >= 0x80 && code <= 0x8f:
			return container("map", 1, int(code&0x0f))
		case code >= 0x90 && code <= 0x9f:
			return container("array", 1, int(code&0x0f))
		case code >= 0xa0 && code <= 0xbf:
			return blob("str", 1, int(code&0x1f))
		}
		switch code {
		case 0xc0, 0xc2, 0xc3, 0xc1:
			items = append(items, mpItem{off: off, hdr: 1, kind: "other", end: off + 1})
			return off + 1
		case 0xc4:
			return blob("bin", 2, be(off+1, 1))
		case 0xc5:
			return blob("bin", 3, be(off+1, 2))
		case 0xc6:
			return blob("bin", 5, be(off+1, 4))
		case 0xc7:
			return blob("ext", 3, be(off+1, 1))
		case 0xc8:
			return blob("ext", 4, be(off+1, 2))
		case 0xc9:
			return blob("ext", 6, be(off+1, 4))
		case 0xca:
			items = append(items, mpItem{off: off, hdr: 1, kind: "other", end: off + 5})
			return off + 5
		case 0xcb, 0xcf, 0xd3:
			items = append(items, mpItem{off: off, hdr: 1, kind: "other", end: off + 9})
			return off + 9
		case 0xcc, 0xd0:
			items = append(items, mpItem{off: off, hdr: 1, kind: "other", end: off + 2})
			return off + 2
		case 0xcd, 0xd1:
			items = append(items, mpItem{off: off, hdr: 1, kind: "other", end: off + 3})
			return off + 3
		case 0xce, 0xd2:
			items = append(items, mpItem{off: off, hdr: 1, kind: "other", end: off + 5})
			return off + 5
		case 0xd4, 0xd5, 0xd6, 0xd7, 0xd8:
			n := 1 << (code - 0xd4)
			return blob("ext", 2, n)
		case 0xd9:
			return blob("str", 2, be(off+1, 1))
		case 0xda:
			return blob("str", 3, be(off+1, 2))
		case 0xdb:
			return blob("str", 5, be(off+1, 4))
		case 0xdc:
			return container("array", 3, be(off+1, 2))
		case 0xdd:
			return container("array", 5, be(off+1, 4))
		case 0xde:
			return container("map", 3, be(off+1, 2))
		case 0xdf:
			return container("map", 5, be(off+1, 4))
		}
		return off + 1
	}
	for p := 0; p < len(b) && len(items) < 400; {
		np := walk(p, 0)
		if np <= p {
			break
		}
		p = np
	}
	return items
}

func mpHeader(kind string, n int, wide int) []byte {
	u16 := func(code byte) []byte { return []byte{code, byte(n >> 8), byte(n)} }
	u32 := func(code byte) []byte {
		b := []byte{code, 0, 0, 0, 0}
		binary.BigEndian.PutUint32(b[1:], uint32(n))
		return b
	}
	switch kind {
	case "array":
		switch {
		case wide == 0 && n < 16:
			return []byte{0x90 | byte(n)}
		case wide <= 1 && n < 1<<16:
			return u16(0xdc)
		}
		return u32(0xdd)
	case "map":
		switch {
		case wide == 0 && n < 16:
			return []byte{0x80 | byte(n)}
		case wide <= 1 && n < 1<<16:
			return u16(0xde)
		}
		return u32(0xdf)
	case "str":
		switch {
		case wide == 0 && n < 32:
			return []byte{0xa0 | byte(n)}
		case wide <= 1 && n < 256:
			return []byte{0xd9, byte(n)}
		case wide <= 2 && n < 1<<16:
			return u16(0xda)
		}
		return u32(0xdb)
	case "bin":
		switch {
		case wide == 0 && n < 256:
			return []byte{0xc4, byte(n)}
		case wide <= 1 && n < 1<<16:
			return u16(0xc5)
		}
		return u32(0xc6)
	}
	return nil
}

// otherSpelling returns the canonically equivalent string in the other normalization form.
func otherSpelling(x string) string {
	if d := norm.NFD.String(x); d != x {
		return d
	}
	return norm.NFC.String(x)
}

func mpStrHeader(n int) []byte {
	switch {
	case n < 32:
		return []byte{0xa0 | byte(n)}
	case n < 256:
		return []byte{0xd9, byte(n)}
	}
	return []byte{0xda, byte(n >> 8), byte(n)}
}

func mpExt(typ byte, body []byte) []byte {
	n := len(body)
	switch {
	case n == 1:
		return append([]byte{0xd4, typ}, body...)
	case n == 2:
		return append([]byte{0xd5, typ}, body...)
	case n == 4:
		return append([]byte{0xd6, typ}, body...)
	case n < 256:
		return append([]byte{0xc7, byte(n), typ}, body...)
	case n < 1<<16:
		return append([]byte{0xc8, byte(n >> 8), byte(n), typ}, body...)
	}
	b := []byte{0xc9, 0, 0, 0, 0, typ}
	binary.BigEndian.PutUint32(b[1:], uint32(n))
	return append(b, body...)
}

// hostile refinement bodies: each is the body of an extension record of type 12
var c17RefBodies = [][]byte{
	{0x82, 0x01, 0xc2, 0x01, 0xc3},                               // not-null and null
	{0x82, 0x01, 0xc3, 0x01, 0xc2},                               // null and not-null
	{0x82, 0x05, 0x03, 0x06, 0x01},                               // length 3..1
	{0x82, 0x06, 0x01, 0x05, 0x03},                               // the same, other order
	{0x82, 0x03, 0x92, 0x05, 0xc3, 0x04, 0x92, 0x01, 0xc3},       // number 5..1
	{0x82, 0x03, 0x92, 0x05, 0xc2, 0x04, 0x92, 0x05, 0xc2},       // (5, 5) both exclusive
	{0x82, 0x03, 0x92, 0x05, 0xc3, 0x04, 0x92, 0x05, 0xc2},       // [5, 5)
	{0x81, 0x02, 0xa2, 0xff, 0xfe},                               // prefix not UTF-8
	{0x82, 0x02, 0xa1, 'a', 0x02, 0xa1, 'b'},                     // two incompatible prefixes
	{0x81, 0x05, 0xff},                                           // negative length
	{0x81, 0x06, 0xd0, 0x80},                                     // negative upper length
	{0x81, 0x05, 0xce, 0xff, 0xff, 0xff, 0xff},                   // huge lower length
	{0x81, 0x03, 0x92, 0xc0, 0xc3},                               // null bound
	{0x81, 0x03, 0x92, 0xd4, 0x00, 0x00, 0xc3},                   // unknown bound
	{0x81, 0x03, 0x92, 0x05, 0xc0},                               // null inclusiveness
	{0x81, 0x03, 0x93, 0x05, 0xc3, 0x01},                         // bound of three elements
	{0x81, 0x03, 0x91, 0x05},                                     // bound of one element
	{0x82, 0x01, 0xc3, 0x03, 0x92, 0x05, 0xc3},                   // null with a numeric bound
	{0x82, 0x01, 0xc3, 0x02, 0xa1, 'a'},                          // null with a prefix
	{0x82, 0x01, 0xc3, 0x05, 0x02},                               // null with a length
	{0x81, 0x01, 0xc0},                                           // nullness nil
	{0x81, 0xa1, 'x', 0x01},                                      // string key
	{0xdf, 0x7f, 0xff, 0xff, 0xff},                               // map32 of absurd size
	{0xde, 0xff, 0xff, 0x01, 0xc2},                               // map16 65535
	{0x81, 0x03, 0x92, 0xcb, 0x7f, 0xf0, 0, 0, 0, 0, 0, 0, 0xc3}, // +Inf lower bound
	{0x81, 0x04, 0x92, 0xcb, 0xff, 0xf0, 0, 0, 0, 0, 0, 0, 0xc3}, // -Inf upper bound
	{0x81, 0x03, 0x92, 0xcb, 0x7f, 0xf8, 0, 0, 0, 0, 0, 1, 0xc3}, // NaN bound
	{0x81, 0x07, 0x01},                                           // unknown key
	{0x90},                                                       // not a map
	{0x82, 0x01, 0xc2},                                           // truncated map
}

// mpUint encodes a non-negative integer the shortest way.
func mpUint(n int) []byte {
	switch {
	case n < 128:
		return []byte{byte(n)}
	case n < 1<<8:
		return []byte{0xcc, byte(n)}
	case n < 1<<16:
		return []byte{0xcd, byte(n >> 8), byte(n)}
	case n < 1<<32:
		return []byte{0xce, byte(n >> 24), byte(n >> 16), byte(n >> 8), byte(n)}
	}
	b := []byte{0xcf, 0, 0, 0, 0, 0, 0, 0, 0}
	binary.BigEndian.PutUint64(b[1:], uint64(n))
	return b
}

// c17RefBody: a hostile refinement body from the table, or a generated one - 1..4 entries over the keys the
// format knows, with numbers from the whole range of what an integer field can say (a length, a bound), lower and
// upper length often pinned to the same number
func c17RefBody(draw func(int) int) []byte {
	if draw(3) != 0 {
		return c17RefBodies[draw(len(c17RefBodies))]
	}
	big := c17LenChoices[draw(len(c17LenChoices))]
	if draw(2) == 0 {
		// about a collection's length: lower and upper bound, often the same number, with or without nullness
		lo, hi := big, big
		if draw(2) == 0 {
			hi = c17LenChoices[draw(len(c17LenChoices))]
		}
		body := []byte{0x82}
		if draw(4) != 0 {
			body = []byte{0x83, 0x01, 0xc2 + byte(draw(5)/4)}
		}
		body = append(append(body, 0x05), mpUint(lo)...)
		return append(append(body, 0x06), mpUint(hi)...)
	}
	if draw(3) == 0 {
		// about a number's bounds: lower and upper bound within a rounding error of each other, one as float64 and one
		// as text, or both the same way (which of them is the smaller is the library's to say, consistently)
		enc := func(which int) []byte {
			d := []string{"0.3", "0.1", "2.5"}[which%3]
			switch draw(4) {
			case 0:
				f, _ := strconv.ParseFloat(d, 64)
				b := []byte{0xcb, 0, 0, 0, 0, 0, 0, 0, 0}
				binary.BigEndian.PutUint64(b[1:], math.Float64bits(f))
				return b
			case 1:
				t := map[string]string{"0.3": "0.29999999999999999", "0.1": "0.10000000000000000001", "2.5": "2.5000000000000000001"}[d]
				return append(mpStrHeader(len(t)), t...)
			case 2:
				t := map[string]string{"0.3": "0.30000000000000004", "0.1": "0.09999999999999999", "2.5": "2.4999999999999999"}[d]
				return append(mpStrHeader(len(t)), t...)
			}
			return append(mpStrHeader(len(d)), d...)
		}
		which := draw(3)
		body := []byte{0x82}
		if draw(3) != 0 {
			body = []byte{0x83, 0x01, 0xc2}
		}
		body = append(append(append(body, 0x03, 0x92), enc(which)...), 0xc2+byte(draw(2)))
		return append(append(append(body, 0x04, 0x92), enc(which)...), 0xc2+byte(draw(2)))
	}
	n := 1 + draw(4)
	body := []byte{0x80 | byte(n)}
	used := map[int]bool{}
	for i := 0; i < n; i++ {
		k := 1 + draw(6)
		if i == 0 && draw(2) == 0 {
			k = 1
		}
		if used[k] && draw(4) != 0 {
			k = 1 + (k+1)%6
		}
		used[k] = true
		body = append(body, byte(k))
		v := c17LenChoices[draw(len(c17LenChoices))]
		if draw(2) == 0 {
			v = big
		}
		switch k {
		case 1:
			body = append(body, 0xc2+byte(draw(2)))
		case 2:
			pre := []string{"", "a", "abé", "\u0301"}[draw(4)]
			body = append(body, append(mpStrHeader(len(pre)), pre...)...)
		case 3, 4:
			body = append(body, 0x92)
			switch draw(8) {
			case 0, 1: // a decimal as float64
				f := []float64{0.3, 0.1, 0.30000000000000004, 2.5}[draw(4)]
				b := []byte{0xcb, 0, 0, 0, 0, 0, 0, 0, 0}
				binary.BigEndian.PutUint64(b[1:], math.Float64bits(f))
				body = append(body, b...)
			case 2, 3: // ... and as text (how numbers that float64 cannot hold travel): the same decimal, or a neighbour
				t := []string{"0.3", "0.1", "0.29999999999999999", "0.30000000000000004", "0.10000000000000000001", "2.5"}[draw(6)]
				body = append(body, append(mpStrHeader(len(t)), t...)...)
			default:
				body = append(body, mpUint(v)...)
			}
			body = append(body, 0xc2+byte(draw(2)))
		default:
			body = append(body, mpUint(v)...)
		}
	}
	return body
}

// leaves: not-a-number and infinities in both float widths, negative zero, the extremes of the integer types, text
// that is not UTF-8 or not normalized, text in a bin item, nil, booleans, extension items of other types than the one
// that means "unknown", an unknown with an empty body, a timestamp extension
var c17Leaves = [][]byte{
	{0xca, 0x7f, 0xc0, 0x00, 0x00}, {0xcb, 0x7f, 0xf8, 0, 0, 0, 0, 0, 1}, {0xca, 0x7f, 0x80, 0x00, 0x00}, {0xca, 0xff, 0x80, 0x00, 0x00},
	{0xcb, 0x7f, 0xf0, 0, 0, 0, 0, 0, 0}, {0xcb, 0xff, 0xf0, 0, 0, 0, 0, 0, 0}, {0xcb, 0x80, 0, 0, 0, 0, 0, 0, 0}, {0xca, 0x80, 0x00, 0x00, 0x00},
	{0xcf, 0xff, 0xff, 0xff, 0xff, 0xff, 0xff, 0xff, 0xff}, {0xd3, 0x80, 0, 0, 0, 0, 0, 0, 0}, {0xcb, 0x00, 0, 0, 0, 0, 0, 0, 1}, {0xcb, 0x7f, 0xef, 0xff, 0xff, 0xff, 0xff, 0xff, 0xff},
	{0xa2, 0xff, 0xfe}, {0xa3, 0xed, 0xa0, 0x80}, {0xa3, 'e', 0xcc, 0x81}, {0xa3, 0xe1, 0x84, 0x80}, {0xc4, 0x01, 'a'}, {0xc4, 0x00}, {0xd9, 0x01, 'a'}, {0xa0},
	{0xc0}, {0xc2}, {0xc3}, {0xc1},
	{0xd4, 0x00, 0x00}, {0xd4, 0x05, 0x00}, {0xd4, 0x0d, 0x00}, {0xd5, 0x0c, 0x80, 0xc0}, {0xd6, 0xff, 0, 0, 0, 0}, {0xc7, 0x00, 0x0c}, {0xc7, 0x00, 0x05}, {0xd7, 0xff, 0, 0, 0, 0, 0, 0, 0, 0},
}

var c17Headers = [][]byte{
	{0xdd, 0x01, 0x00, 0x00, 0x00}, {0xdd, 0x7f, 0xff, 0xff, 0xff}, {0xdd, 0xff, 0xff, 0xff, 0xff}, {0xdc, 0xff, 0xff},
	{0xdf, 0x01, 0x00, 0x00, 0x00}, {0xdf, 0x7f, 0xff, 0xff, 0xff}, {0xde, 0xff, 0xff},
	{0xdb, 0x7f, 0xff, 0xff, 0xff}, {0xdb, 0x00, 0x10, 0x00, 0x00}, {0xda, 0xff, 0xff}, {0xc6, 0x7f, 0xff, 0xff, 0xff},
	{0xc9, 0x7f, 0xff, 0xff, 0xff, 0x0c}, {0xc8, 0xff, 0xff, 0x0c}, {0xc7, 0xff, 0x0c}, {0xc7, 0x00, 0x0c}, {0xd4, 0x0c, 0x00},
	{0x9f}, {0x8f}, {0xbf},
}

// ---------------------------------------------------------------------------
// storage faults

// type descriptions a hostile or damaged dynamic-value wrapper may carry: object types with
// optional attributes at several positions (legal type JSON; meaningful only as conversion targets)
var c17WrapperTypes = []string{
	`["object",{"a":"string","b":"number"},["b"]]`,
	`["object",{"a":"string"},["a"]]`,
	`["list",["object",{"a":"string"},["a"]]]`,
	`["set",["object",{"a":"string"},["a"]]]`,
	`["map",["object",{"a":"string","b":"bool"},["a","b"]]]`,
	`["tuple",[["object",{"a":"string"},["a"]],"string"]]`,
	`["object",{"x":["object",{"a":"string"},["a"]],"y":"string"}]`,
	`["object",{"x":["list",["object",{"a":"number"},["a"]]]},["x"]]`,
}

// values that make a decoder build its result straight from the wrapper's type
var c17WrapperJSONValues = []string{"null", "[]", "{}", "[null]", `{"x":null,"y":"s"}`, `{"x":null}`, `{"a":"s"}`, `[{"a":null}]`}
var c17WrapperMsgpackValues = [][]byte{{0xc0}, {0x90}, {0x80}, {0xd4, 0x00, 0x00}, {0x91, 0xc0}, {0x82, 0xa1, 'x', 0xc0, 0xa1, 'y', 0xa1, 's'}, {0x81, 0xa1, 'a', 0xa1, 's'}, {0x91, 0x81, 0xa1, 'a', 0xc0}}

func c17JSONWrapper(c *Ctx, draw func(int) int) []byte {
	ty := c17WrapperTypes[draw(len(c17WrapperTypes))]
	val := c17WrapperJSONValues[draw(len(c17WrapperJSONValues))]
	switch draw(12) {
	case 0: // the value before its type
		return []byte(`{"value":` + val + `,"type":` + ty + `}`)
	case 1: // no value
		return []byte(`{"type":` + ty + `}`)
	case 2: // no type
		return []byte(`{"value":` + val + `}`)
	case 3: // the type twice, differently
		return []byte(`{"type":"string","type":` + ty + `,"value":` + val + `}`)
	case 4: // the value twice
		return []byte(`{"type":` + ty + `,"value":` + val + `,"value":null}`)
	case 5: // something else besides
		return []byte(`{"type":` + ty + `,"value":` + val + `,"extra":[1,{"a":null}]}`)
	case 6: // the type is not a type description
		return []byte(`{"type":` + []string{"null", "17", `"no-such-type"`, `["list"]`, `["object",{"a":null}]`, `{}`, `["tuple","string"]`}[draw(7)] + `,"value":` + val + `}`)
	case 7: // nothing at all
		return []byte(`{}`)
	}
	return []byte(`{"type":` + ty + `,"value":` + val + `}`)
}

func c17MsgpackWrapper(c *Ctx, draw func(int) int) []byte {
	ty := c17WrapperTypes[draw(len(c17WrapperTypes))]
	out := append([]byte{0x92}, mpHeader("bin", len(ty), 0)...)
	out = append(out, ty...)
	return append(out, c17WrapperMsgpackValues[draw(len(c17WrapperMsgpackValues))]...)
}

var c17FaultNames = []string{"store.flip", "store.overwrite", "store.torn", "store.lost", "store.dup", "store.misdirect", "store.zero", "store.lenfield", "store.token", "store.extbody", "store.header", "store.wrapper", "store.keycopy", "store.extint", "store.leaf"}

var c17LenChoices = []int{0, 1, 15, 16, 31, 32, 255, 256, 65535, 65536, 1 << 20, 1 << 24, 1<<31 - 1, 1<<32 - 1}

func c17ApplyFault(c *Ctx, kind int, data []byte, others [][]byte) []byte {
	n := len(data)
	pos := func() int {
		if n == 0 {
			return 0
		}
		return c.F(n)
	}
	switch kind {
	case 0: // bit flip
		if n > 0 {
			out := append([]byte(nil), data...)
			out[pos()] ^= 1 << uint(c.F(8))
			return out
		}
	case 1: // byte overwrite, biased to bytes that mean something
		if n > 0 {
			out := append([]byte(nil), data...)
			interesting := []byte{0x00, 0xff, 0xc0, 0xc1, 0xc7, 0xd4, 0xdc, 0xdd, 0xde, 0xdf, 0xdb, 0x90, 0x80, 0xa0, '"', '{', '[', ']', '}', ',', ':', '\\', '-', 'e', '0', 'n', 't'}
			out[pos()] = interesting[c.F(len(interesting))]
			return out
		}
	case 2: // torn write
		return append([]byte(nil), data[:pos()]...)
	case 3: // lost sector
		if n > 0 {
			a := pos()
			l := 1 + c.F(8)
			if a+l > n {
				l = n - a
			}
			return append(append([]byte(nil), data[:a]...), data[a+l:]...)
		}
	case 4: // duplicated sector
		if n > 0 {
			a := pos()
			l := 1 + c.F(16)
			if a+l > n {
				l = n - a
			}
			out := append([]byte(nil), data[:a+l]...)
			out = append(out, data[a:a+l]...)
			return append(out, data[a+l:]...)
		}
	case 5: // misdirected read: a fragment of another record spliced in
		if len(others) > 0 {
			o := others[c.F(len(others))]
			if len(o) > 0 {
				a := c.F(len(o))
				l := 1 + c.F(24)
				if a+l > len(o) {
					l = len(o) - a
				}
				p := pos()
				q := p + c.F(l+1)
				if q > n {
					q = n
				}
				out := append([]byte(nil), data[:p]...)
				out = append(out, o[a:a+l]...)
				return append(out, data[q:]...)
			}
		}
	case 6: // zero fill
		if n > 0 {
			out := append([]byte(nil), data...)
			a := pos()
			l := 1 + c.F(8)
			for i := a; i < a+l && i < n; i++ {
				out[i] = 0
			}
			return out
		}
	case 7: // length-field edit, guided by the scanner
		items := mpScan(data)
		var cand []mpItem
		for _, it := range items {
			if it.kind != "other" && it.kind != "ext" {
				cand = append(cand, it)
			}
		}
		if len(cand) > 0 {
			it := cand[c.F(len(cand))]
			var nl int
			switch c.F(4) {
			case 0:
				nl = it.n + 1
			case 1:
				nl = it.n - 1
				if nl < 0 {
					nl = 0
				}
			default:
				nl = c17LenChoices[c.F(len(c17LenChoices))]
			}
			h := mpHeader(it.kind, nl, c.F(4))
			out := append([]byte(nil), data[:it.off]...)
			out = append(out, h...)
			if it.off+it.hdr <= n {
				out = append(out, data[it.off+it.hdr:]...)
			}
			return out
		}
		// JSON has no length fields; fall through to a flip
		if n > 0 {
			out := append([]byte(nil), data...)
			out[pos()] ^= 0x80
			return out
		}
	case 8: // token-level damage (JSON)
		return c17TokenDamage(c, data)
	case 9: // replace some item by an extension record with a hostile refinement body
		items := mpScan(data)
		body := c17RefBody(c.F)
		ext := mpExt(0x0c, body)
		if c.F(8) == 0 {
			ext = mpExt(byte(c.F(256)), body)
		}
		if len(items) > 0 {
			it := items[c.F(len(items))]
			end := it.end
			if end < it.off+it.hdr || end > n {
				end = n
			}
			out := append([]byte(nil), data[:it.off]...)
			out = append(out, ext...)
			return append(out, data[end:]...)
		}
		return ext
	case 10: // replace some item by a bare header with an absurd length
		items := mpScan(data)
		h := c17Headers[c.F(len(c17Headers))]
		if len(items) > 0 {
			it := items[c.F(len(items))]
			out := append([]byte(nil), data[:it.off]...)
			out = append(out, h...)
			if c.F(2) == 0 && it.off+it.hdr <= n {
				out = append(out, data[it.off+it.hdr:]...)
			}
			return out
		}
		return append([]byte(nil), h...)
	case 12: // one string item is overwritten by a copy of another (a misdirected write inside the record): when both
		// are keys of one map, a member is now given twice and another not at all, the declared count unchanged
		if n > 0 && (data[0] == '{' || data[0] == '[') {
			return c17TokenDamage(c, data) // JSON: the token-level damage has its own key overwrite
		}
		var strs []mpItem
		for _, it := range mpScan(data) {
			if it.kind == "str" && it.end <= n {
				strs = append(strs, it)
			}
		}
		if len(strs) >= 2 {
			i := c.F(len(strs) - 1)
			j := i + 1
			if i+2 < len(strs) && c.F(2) == 0 {
				j = i + 2 // in a map of scalars the next key is two items on
			}
			dst, src := strs[i], strs[j]
			if c.F(2) == 0 {
				dst, src = src, dst
			}
			item := data[src.off:src.end]
			if c.F(2) == 0 && src.off+src.hdr <= src.end {
				// ... in another spelling of the same string (decomposed instead of composed, or the reverse)
				body := string(data[src.off+src.hdr : src.end])
				if alt := otherSpelling(body); alt != body && len(alt) < 1<<16 {
					item = append(mpStrHeader(len(alt)), alt...)
					c.Probe("c17.keycopy-respelled")
				}
			}
			out := append([]byte(nil), data[:dst.off]...)
			out = append(out, item...)
			return append(out, data[dst.end:]...)
		}
	case 14: // some item (a member, a key) becomes a leaf that is legal MessagePack and awkward for the reader
		items := mpScan(data)
		leaf := c17Leaves[c.F(len(c17Leaves))]
		if len(items) > 0 {
			it := items[c.F(len(items))]
			end := it.end
			if end < it.off+it.hdr || end > n {
				end = n
			}
			out := append([]byte(nil), data[:it.off]...)
			out = append(out, leaf...)
			return append(out, data[end:]...)
		}
		return append([]byte(nil), leaf...)
	case 13: // an integer inside a refinement body (a length, a bound) is rewritten, the extension header adjusted
		var exts []mpItem
		for _, it := range mpScan(data) {
			if it.kind == "ext" && it.off+it.hdr+it.n <= n && it.n > 1 && data[it.off+it.hdr-1] == 0x0c {
				exts = append(exts, it)
			}
		}
		if len(exts) > 0 {
			it := exts[c.F(len(exts))]
			body := data[it.off+it.hdr : it.off+it.hdr+it.n]
			var ints []mpItem
			for _, bi := range mpScan(body) {
				if bi.kind == "other" && bi.off > 0 && bi.end <= len(body) && (body[bi.off] <= 0x7f || (body[bi.off] >= 0xcc && body[bi.off] <= 0xcf)) {
					ints = append(ints, bi)
				}
			}
			if len(ints) > 0 {
				v := c17LenChoices[c.F(len(c17LenChoices))]
				nb := append([]byte(nil), body...)
				// from the last to the first so that offsets stay valid; one integer, or every one (pinning
				// lower and upper length to the same number)
				all := c.F(2) == 0
				pick := c.F(len(ints))
				starts := map[int]bool{}
				for _, bi := range ints {
					starts[bi.off] = true
				}
				for i := len(ints) - 1; i >= 0; i-- {
					bi := ints[i]
					isLen := starts[bi.off-1] && (body[bi.off-1] == 5 || body[bi.off-1] == 6)
					if (all && !isLen) || (!all && i != pick) {
						continue
					}
					nb = append(append(append([]byte(nil), nb[:bi.off]...), mpUint(v)...), nb[bi.end:]...)
				}
				out := append([]byte(nil), data[:it.off]...)
				out = append(out, mpExt(0x0c, nb)...)
				return append(out, data[it.off+it.hdr+it.n:]...)
			}
		}
	case 11: // some item becomes a dynamic-value wrapper whose type carries optional attributes
		if n > 0 && (data[0] == '{' || data[0] == '[' || data[0] == '"') {
			toks := jsonTokens(data)
			w := c17JSONWrapper(c, c.F)
			if len(toks) > 0 {
				t := toks[c.F(len(toks))]
				out := append([]byte(nil), data[:t.a]...)
				out = append(out, w...)
				return append(out, data[t.b:]...)
			}
			return w
		}
		items := mpScan(data)
		w := c17MsgpackWrapper(c, c.F)
		if len(items) > 0 {
			it := items[c.F(len(items))]
			end := it.end
			if end < it.off+it.hdr || end > n {
				end = n
			}
			out := append([]byte(nil), data[:it.off]...)
			out = append(out, w...)
			return append(out, data[end:]...)
		}
		return w
	}
	return append([]byte(nil), data...)
}

type jtok struct {
	a, b int
	kind byte // s string, n number, l literal, p punctuation
}

func jsonTokens(b []byte) []jtok {
	var out []jtok
	for i := 0; i < len(b) && len(out) < 600; {
		ch := b[i]
		switch {
		case ch == '"':
			j := i + 1
			for j < len(b) && b[j] != '"' {
				if b[j] == '\\' {
					j++
				}
				j++
			}
			if j < len(b) {
				j++
			} else {
				j = len(b)
			}
			out = append(out, jtok{i, j, 's'})
			i = j
		case ch == '-' || (ch >= '0' && ch <= '9'):
			j := i + 1
			for j < len(b) && strings.IndexByte("0123456789.eE+-", b[j]) >= 0 {
				j++
			}
			out = append(out, jtok{i, j, 'n'})
			i = j
		case ch >= 'a' && ch <= 'z':
			j := i + 1
			for j < len(b) && b[j] >= 'a' && b[j] <= 'z' {
				j++
			}
			out = append(out, jtok{i, j, 'l'})
			i = j
		case strings.IndexByte("{}[],:", ch) >= 0:
			out = append(out, jtok{i, i + 1, 'p'})
			i++
		default:
			i++
		}
	}
	return out
}

var c17NumberSpellings = []string{"1e400", "-0", "1.0e-5", "0x1", "NaN", "Infinity", "01", "1.", ".5", "-", "1e", "123456789012345678901234567890123456789012345678901234567890", "1e-400", "9007199254740993", "-1e999999999", "1e999999", "1e-9999", "3.e119020815", ".5e-77777777", "1E+2", "0.1e1",
	// exponents no number type holds: the tokenizer accepts them, the number parser does not
	"1e2147483647", "25e2147483650", "7E+99999999999999999999", "1e-2147483649", "1e4294967296", "1e2147483646"}
var c17Replacements = []string{"12", `"x"`, "true", "false", "null", "{}", "[]", `{"a":1}`, `[null]`, `"\ud800"`, `"\u0000"`, `"é"`, `{"value":1,"type":"string"}`, `{"type":"string","value":"x"}`, `{"type":["list","string"],"value":[1]}`, `{"type":"string"}`, `{"value":1}`, `{"type":1,"value":1}`}

func c17TokenDamage(c *Ctx, data []byte) []byte {
	toks := jsonTokens(data)
	if len(toks) == 0 {
		return append([]byte(nil), data...)
	}
	splice := func(a, b int, with string) []byte {
		out := append([]byte(nil), data[:a]...)
		out = append(out, with...)
		return append(out, data[b:]...)
	}
	t := toks[c.F(len(toks))]
	kind := c.F(8)
	if nk := bytes.Count(data, []byte(`":`)); nk >= 2 && c.F(3) == 0 {
		kind = 7 // a document with several keys: damage among the keys is the interesting kind
	}
	switch kind {
	case 7: // a key is overwritten by another key of the record (a misdirected write inside the record): one
		// member is now given twice and another not at all, while the number of members stays what it was
		var keys []jtok
		for i := 0; i+1 < len(toks); i++ {
			if toks[i].kind == 's' && toks[i+1].kind == 'p' && data[toks[i+1].a] == ':' {
				keys = append(keys, toks[i])
			}
		}
		if len(keys) >= 2 {
			// (neighbouring keys are mostly members of one object)
			i := c.F(len(keys) - 1)
			dst, src := keys[i], keys[i+1]
			if c.F(2) == 0 {
				dst, src = src, dst
			}
			c.Probe("c17.token.key-overwritten")
			repl := string(data[src.a:src.b])
			if c.F(2) == 0 {
				// ... in another spelling of the same name (decomposed instead of composed, or the reverse)
				if alt := otherSpelling(repl); alt != repl {
					repl = alt
					c.Probe("c17.token.key-respelled")
				}
			}
			return splice(dst.a, dst.b, repl)
		}
		return splice(t.a, t.b, c17Replacements[c.F(len(c17Replacements))])
	case 0: // swap the token for one of another kind
		return splice(t.a, t.b, c17Replacements[c.F(len(c17Replacements))])
	case 1: // drop a delimiter
		for k := 0; k < len(toks); k++ {
			x := toks[(c.F(len(toks))+k)%len(toks)]
			if x.kind == 'p' {
				return splice(x.a, x.b, "")
			}
		}
	case 2: // duplicate a key with its value
		for k := 0; k+1 < len(toks); k++ {
			i := (c.F(len(toks)) + k) % (len(toks) - 1)
			if toks[i].kind == 's' && toks[i+1].kind == 'p' && data[toks[i+1].a] == ':' {
				// find the end of the value by depth
				depth, j := 0, i+2
				for ; j < len(toks); j++ {
					ch := data[toks[j].a]
					if toks[j].kind == 'p' {
						if ch == '{' || ch == '[' {
							depth++
						} else if ch == '}' || ch == ']' {
							if depth == 0 {
								break
							}
							depth--
						} else if ch == ',' && depth == 0 {
							break
						}
					}
				}
				end := len(data)
				if j < len(toks) {
					end = toks[j].a
				}
				member := string(data[toks[i].a:end])
				if c.F(2) == 0 {
					// same key, another value
					member = string(data[toks[i].a:toks[i+1].b]) + c17Replacements[c.F(len(c17Replacements))]
				}
				return splice(end, end, ","+member)
			}
		}
	case 3: // deepen nesting
		k := 1 + c.F(200)
		if c.F(4) == 0 {
			k = 1000 + c.F(3000)
		}
		open, shut := "[", "]"
		if c.F(3) == 0 {
			open, shut = `{"a":`, "}"
		}
		if c.F(2) == 0 {
			return []byte(strings.Repeat(open, k) + string(data[t.a:t.b]) + strings.Repeat(shut, k))
		}
		return splice(t.a, t.b, strings.Repeat(open, k)+string(data[t.a:t.b])+strings.Repeat(shut, k))
	case 4: // respell a number
		for k := 0; k < len(toks); k++ {
			x := toks[(c.F(len(toks))+k)%len(toks)]
			if x.kind == 'n' {
				return splice(x.a, x.b, c17NumberSpellings[c.F(len(c17NumberSpellings))])
			}
		}
		return splice(t.a, t.b, c17NumberSpellings[c.F(len(c17NumberSpellings))])
	case 5: // swap two tokens
		u := toks[c.F(len(toks))]
		if u.a > t.b {
			out := append([]byte(nil), data[:t.a]...)
			out = append(out, data[u.a:u.b]...)
			out = append(out, data[t.b:u.a]...)
			out = append(out, data[t.a:t.b]...)
			return append(out, data[u.b:]...)
		}
	case 6: // turn an object into an array or back
		out := append([]byte(nil), data...)
		for i := range out {
			switch out[i] {
			case '{':
				out[i] = '['
			case '}':
				out[i] = ']'
			}
		}
		return out
	}
	return splice(t.a, t.b, c17Replacements[c.F(len(c17Replacements))])
}

// ---------------------------------------------------------------------------

// c17MaxLen: mostly short collections; now and then more than 15 members, where the encodings switch to their
// wider length headers (the record stays below the size cap because collections of collections multiply).
func c17MaxLen(c *Ctx) int {
	if c.G(6) == 0 {
		return 7 + c.G(14)
	}
	return 3
}

// c17SameTypedObject: objects whose attributes share one type, alone or as members of a structure - a key damaged
// into a sibling's (or into another spelling of a sibling's: some names are not ASCII) still decodes.
func c17SameTypedObject(c *Ctx) *TDesc {
	et := genType(c, 1, GenOpts{})
	obj := &TDesc{K: KObject}
	names := [][]string{{"a", "b", "k", "zz"}, {"\u00e9", "a", "\u00c5", "k"}, {"k", "\uac00", "\u00e9x", "b"}}[c.G(3)]
	for _, n := range names[:2+c.G(3)] {
		obj.Names = append(obj.Names, n)
		obj.Elems = append(obj.Elems, et)
	}
	return []*TDesc{obj, {K: KList, Elem: obj}, {K: KMap, Elem: obj}, {K: KTuple, Elems: []*TDesc{obj, tString}}}[c.G(4)]
}

// c17MixedMembers: a tuple or an object whose members have unrelated types (untyped and typed nulls among them,
// unknowns for MessagePack), written with every member under the placeholder type, so that each member travels in
// its own wrapper naming its own type; read back as that structure, or as a list / set / map of the placeholder
// type, whose members must agree.
func c17MixedMembers(c *Ctx, msgp bool) c17Record {
	n := 2 + c.G(4)
	t := &TDesc{K: KTuple}
	if c.G(3) == 0 {
		t.K = KObject
	}
	d := &VDesc{T: t}
	for i := 0; i < n; i++ {
		var m *VDesc
		switch c.G(5) {
		case 0:
			m = &VDesc{T: tDynamic, St: StNull}
		case 1:
			m = genValue(c, genType(c, 1, GenOpts{}), 1, GenOpts{Null: true, MaxLen: 2})
			m.St = StNull
			m.Elems, m.Keys = nil, nil
		default:
			m = genValue(c, genType(c, 1, GenOpts{}), 1, GenOpts{Null: true, Unknown: msgp, MaxLen: 2})
		}
		m.stripMarksDeep()
		d.Elems = append(d.Elems, m)
		t.Elems = append(t.Elems, m.T)
		if t.K == KObject {
			name := []string{"a", "b", "k", "zz", "\u00e9"}[i]
			t.Names = append(t.Names, name)
			d.Keys = append(d.Keys, name)
		}
	}
	enc := &TDesc{K: t.K, Names: t.Names}
	for range t.Elems {
		enc.Elems = append(enc.Elems, tDynamic)
	}
	v := d.Build()
	rec := c17Record{codec: "json", t: t, enc: enc, desc: d.String()}
	var err error
	if msgp {
		rec.codec = "msgpack"
		rec.data, err = msgpack.Marshal(v, enc.Cty())
	} else {
		rec.data, err = ctyjson.Marshal(v, enc.Cty())
	}
	if err != nil {
		rec.data = []byte{0xc0}
		if !msgp {
			rec.data = []byte("null")
		}
	}
	if t.K == KTuple {
		rec.alt = []*TDesc{{K: KList, Elem: tDynamic}, {K: KSet, Elem: tDynamic}, tDynamic, {K: KList, Elem: &TDesc{K: KList, Elem: tDynamic}}}
	} else {
		rec.alt = []*TDesc{{K: KMap, Elem: tDynamic}, tDynamic, {K: KMap, Elem: &TDesc{K: KMap, Elem: tDynamic}}}
	}
	return rec
}

// c17DeepHeaders: one MessagePack collection header repeated, each level announcing many members and holding only
// the next level - what a decoder sets aside per open level adds up over all of them.
func c17DeepHeaders(c *Ctx) c17Record {
	levels := []int{40, 150, 400, 800, 1300}[c.G(5)]
	hdr := [][]byte{{0xdc, 0xff, 0xff}, {0xdc, 0x01, 0x00}, {0xdd, 0x00, 0x01, 0x00, 0x00}, {0x9f}, {0xde, 0xff, 0xff, 0xa1, 'a'}, {0xdf, 0x00, 0x00, 0x10, 0x00, 0xa1, 'a'}, {0x8f, 0xa1, 'a'}}[c.G(7)]
	var b []byte
	for i := 0; i < levels && len(b)+len(hdr) <= c17MaxRecord; i++ {
		b = append(b, hdr...)
	}
	depth := len(b) / len(hdr)
	if depth > 300 {
		depth = 300
	}
	k := KList
	if hdr[0] == 0xde || hdr[0] == 0xdf || hdr[0] == 0x8f {
		k = KMap
	}
	deep := tDynamic
	for i := 0; i < depth; i++ {
		deep = &TDesc{K: k, Elem: deep}
	}
	set := &TDesc{K: KSet, Elem: &TDesc{K: k, Elem: &TDesc{K: k, Elem: tDynamic}}}
	return c17Record{codec: "crafted", data: b, alt: []*TDesc{deep, deep, set, tDynamic}, desc: fmt.Sprintf("%x x %d", hdr, len(b)/len(hdr))}
}

func c17GenRecord(c *Ctx) c17Record {
	kind := c.G(13)
	switch {
	case kind == 10 || kind == 12:
		return c17MixedMembers(c, c.G(2) == 0)
	case kind == 11 && c.G(2) == 0:
		return c17DeepHeaders(c)
	case kind == 11:
		kind = c.G(10)
	}
	switch {
	case kind <= 2: // JSON value (capsule payloads are encoded by encoding/json)
		t := genType(c, 3, GenOpts{Capsule: c.G(4) == 0})
		if c.G(4) == 0 {
			t = c17SameTypedObject(c)
		}
		d := genValue(c, t, 3, GenOpts{Null: true, MaxLen: c17MaxLen(c), Collide: c.G(3) == 0})
		d.stripMarksDeep()
		enc := generalize(c, t, 5)
		b, err := ctyjson.Marshal(d.Build(), enc.Cty())
		if err != nil {
			b = []byte("null")
		}
		return c17Record{codec: "json", data: b, t: t, enc: enc, desc: d.String()}
	case kind <= 5: // msgpack value, unknowns refined in every way
		t := genType(c, 3, GenOpts{})
		if c.G(4) == 0 {
			t = c17SameTypedObject(c)
		}
		d := genValue(c, t, 3, GenOpts{Null: true, Unknown: true, Refine: true, MaxLen: c17MaxLen(c), Collide: c.G(3) == 0})
		d.stripMarksDeep()
		v := d.Build()
		if t.K == KString && c.G(6) == 0 {
			// a prefix longer than the encoder's limit
			v = cty.UnknownVal(cty.String).Refine().StringPrefixFull(strings.Repeat("abé", 100)).NewValue()
		}
		enc := generalize(c, t, 5)
		b, err := msgpack.Marshal(v, enc.Cty())
		if err != nil {
			b = []byte{0xc0}
		}
		return c17Record{codec: "msgpack", data: b, t: t, enc: enc, desc: d.String()}
	case kind == 6: // JSON type
		t := genType(c, 3, GenOpts{Dynamic: true, Optional: true})
		b, err := ctyjson.MarshalType(t.Cty())
		if err != nil {
			b = []byte(`"string"`)
		}
		return c17Record{codec: "jsontype", data: b, t: t, enc: t, desc: t.String()}
	case kind == 7: // noise
		n := c.G(40)
		b := make([]byte, n)
		alphabet := []byte{0x00, 0xff, 0xc0, 0xc2, 0xc3, 0xc7, 0xd4, 0x0c, 0xdc, 0xdd, 0xde, 0xdf, 0xdb, 0x91, 0x92, 0x81, 0x82, 0xa1, 'a', '"', '{', '[', ']', '}', ',', ':', '1', 'e', '-', 'n', 'u', 'l', 't', ' '}
		for i := range b {
			if c.G(3) == 0 {
				b[i] = byte(c.G(256))
			} else {
				b[i] = alphabet[c.G(len(alphabet))]
			}
		}
		return c17Record{codec: "noise", data: b, desc: fmt.Sprintf("%x", b)}
	case kind == 8 && c.G(3) == 0: // a dynamic-value wrapper whose type carries optional attributes
		if c.G(2) == 0 {
			b := c17JSONWrapper(c, c.G)
			return c17Record{codec: "crafted", data: b, enc: tDynamic, desc: string(b)}
		}
		b := c17MsgpackWrapper(c, c.G)
		return c17Record{codec: "crafted", data: b, enc: tDynamic, desc: fmt.Sprintf("%x", b)}
	case kind == 8: // a bare hostile refinement record
		body := c17RefBody(c.G)
		return c17Record{codec: "crafted", data: mpExt(0x0c, body), desc: fmt.Sprintf("ext12 %x", body),
			alt: []*TDesc{{K: KList, Elem: tString}, {K: KSet, Elem: tString}, {K: KMap, Elem: tNumber}, tString, tNumber, tDynamic, {K: KList, Elem: tDynamic}}}
	default: // a hostile record nested in a small valid structure
		body := c17RefBody(c.G)
		inner := mpExt(0x0c, body)
		if c.G(3) == 0 {
			inner = c17Headers[c.G(len(c17Headers))]
		}
		var b []byte
		switch c.G(3) {
		case 0:
			b = append([]byte{0x92, 0x01}, inner...)
		case 1:
			b = append([]byte{0x81, 0xa1, 'a'}, inner...)
		default:
			b = append([]byte{0x92, 0xc4, 0x08, '"', 's', 't', 'r', 'i', 'n', 'g', '"'}, inner...) // dynamic wrapper [type, value]
		}
		return c17Record{codec: "crafted", data: b, desc: fmt.Sprintf("%x", b)}
	}
}

var c17AllocSample = []metrics.Sample{{Name: "/gc/heap/allocs:bytes"}}

func heapAllocs() uint64 {
	metrics.Read(c17AllocSample)
	if c17AllocSample[0].Value.Kind() == metrics.KindUint64 {
		return c17AllocSample[0].Value.Uint64()
	}
	return 0
}

type c17Outcome struct {
	val     cty.Value
	ty      cty.Type
	err     error
	pan     interface{}
	alloc   uint64
	makeTot int64
	makeMax int64
	site    int
}

func c17Guard(recLen int, fn func() (cty.Value, cty.Type, error)) (o c17Outcome) {
	limit := int64(64<<10) + 4096*int64(recLen)
	before := heapAllocs()
	verifseam.BeginRecord(limit)
	func() {
		defer func() {
			if r := recover(); r != nil {
				o.pan = r
			}
		}()
		o.val, o.ty, o.err = fn()
	}()
	o.makeTot, o.makeMax, o.site, _ = verifseam.EndRecord()
	o.alloc = heapAllocs() - before
	if _, seen := o.pan.(verifseam.OversizeAlloc); o.makeTot > limit && !seen {
		// the seam refused the request by panicking, and the decoder's own recover() turned that into an
		// ordinary error (several decoders intercept panics of the constructors they call): the request
		// itself is what is judged, whatever became of the refusal
		o.pan = verifseam.OversizeAlloc{Site: o.site, Requested: o.makeMax, Total: o.makeTot, Limit: limit}
	}
	return o
}

var c17LiveSample = []metrics.Sample{{Name: "/memory/classes/heap/objects:bytes"}}

func heapObjects() uint64 {
	metrics.Read(c17LiveSample)
	if c17LiveSample[0].Value.Kind() == metrics.KindUint64 {
		return c17LiveSample[0].Value.Uint64()
	}
	return 0
}

// peakLive estimates the peak of the heap in use while fn runs, above what was in use before: the collector is
// set to run whenever the heap has grown by a twentieth (so that garbage does not pile up into the measure), a
// second goroutine samples the bytes occupied by heap objects as fast as it can, fn runs on this one. An
// under-estimate if a peak falls between two samples, an over-estimate by the garbage not yet swept: a
// measurement, treated as such (reported only when it reproduces in a fresh process).
func peakLive(fn func()) uint64 {
	old := debug.SetGCPercent(5)
	defer debug.SetGCPercent(old)
	runtime.GC()
	base := heapObjects()
	var peak atomic.Uint64
	stop := make(chan struct{})
	done := make(chan struct{})
	go func() {
		defer close(done)
		for {
			select {
			case <-stop:
				return
			default:
			}
			if h := heapObjects(); h > peak.Load() {
				peak.Store(h)
			}
		}
	}()
	func() {
		defer func() { recover() }()
		fn()
	}()
	if h := heapObjects(); h > peak.Load() {
		peak.Store(h)
	}
	close(stop)
	<-done
	if p := peak.Load(); p > base {
		return p - base
	}
	return 0
}

func exactAlloc(fn func()) uint64 {
	var a, b runtime.MemStats
	runtime.GC()
	runtime.ReadMemStats(&a)
	func() {
		defer func() { recover() }()
		fn()
	}()
	runtime.ReadMemStats(&b)
	return b.TotalAlloc - a.TotalAlloc
}

// typeWellFormed walks a type through its public accessors.
func typeWellFormed(t cty.Type, depth int) (msg string) {
	defer func() {
		if r := recover(); r != nil {
			msg = fmt.Sprintf("accessor panic: %v", r)
		}
	}()
	if t == cty.NilType {
		return "NilType"
	}
	if depth > 200 {
		return ""
	}
	_ = t.FriendlyName()
	switch {
	case t.IsPrimitiveType(), t == cty.DynamicPseudoType:
	case t.IsCollectionType():
		return typeWellFormed(t.ElementType(), depth+1)
	case t.IsTupleType():
		for _, et := range t.TupleElementTypes() {
			if m := typeWellFormed(et, depth+1); m != "" {
				return m
			}
		}
	case t.IsObjectType():
		atys := t.AttributeTypes()
		for n, at := range atys {
			if cty.NormalizeString(n) != n {
				return fmt.Sprintf("attribute name %q is not NFC-normalized", n)
			}
			if m := typeWellFormed(at, depth+1); m != "" {
				return m
			}
		}
		for n := range t.OptionalAttributes() {
			if _, ok := atys[n]; !ok {
				return fmt.Sprintf("optional attribute %q is not an attribute", n)
			}
		}
	case t.IsCapsuleType():
	default:
		return fmt.Sprintf("type of no known kind: %#v", t)
	}
	if depth == 0 {
		if !t.Equals(t) {
			return "type does not equal itself"
		}
		_ = t.GoString()
	}
	return ""
}

func simC17Store(c *Ctx) {
	// ---- writers
	nRec := 2 + c.G(4)
	var store []c17Record
	for i := 0; i < nRec; i++ {
		store = append(store, c17GenRecord(c))
	}
	ri := c.G(nRec)
	rec := store[ri]
	forced := false
	nestDoc := c.G(12000) == 0
	if c.G(6000) == 0 || nestDoc {
		forced = true
		// the documents of the recorded finding on huge exponents (known_findings.txt), read back undamaged with the
		// type that makes the decoder hash and compare the number: every batch meets them
		docs := []struct {
			doc string
			t   *TDesc
		}{{"[1e999999]", &TDesc{K: KSet, Elem: tNumber}}, {`{"value":[1e999999],"type":["set","number"]}`, tDynamic}, {"[1e-9999]", &TDesc{K: KSet, Elem: tNumber}},
			// the same numbers where nothing hashes or compares them: as text, as a list member, as a map member
			{"1e999999", tString}, {"[1e999999,1]", &TDesc{K: KList, Elem: tString}}, {`{"k":1E+999999}`, &TDesc{K: KMap, Elem: tString}},
			{`{"a":1e-9999}`, &TDesc{K: KObject, Names: []string{"a"}, Elems: []*TDesc{tString}}}}
		d := docs[c.G(len(docs))]
		rec = c17Record{codec: "json", data: []byte(d.doc), t: d.t, enc: d.t, desc: d.doc}
		if nestDoc {
			// ... and once in a while a record of hundreds of thousands of levels that is nothing but nesting: what a decoder needs
			// per level (a stack frame, a path step) is paid millions of times. Read back as it is, with a
			// dynamic target.
			levels := (4 + c.G(3)) * 100000
			var unit, tail, closeUnit []byte
			codec := "msgpack"
			var prefix []byte
			nestT := tDynamic
			switch c.G(10) {
			case 8, 9:
				// ... a type description that is nothing but nesting, on its own or as the type half of a
				// MessagePack dynamic-value wrapper
				codec, unit, tail, closeUnit = "jsontype", []byte(`["list",`), []byte(`"string"`), []byte("]")
				if c.G(2) == 0 {
					desc := append(append(bytes.Repeat(unit, levels), tail...), bytes.Repeat(closeUnit, levels)...)
					codec, unit, closeUnit = "msgpack", nil, nil
					prefix = append([]byte{0x92, 0xc6, byte(len(desc) >> 24), byte(len(desc) >> 16), byte(len(desc) >> 8), byte(len(desc))}, desc...)
					tail = []byte{0xc0}
					levels = 0
				}
			case 6, 7:
				// ... under a key the reading type does not declare (what a reader does with members it does not
				// want - skipping them included - is paid per level too)
				unit = []byte{0x91}
				prefix = []byte{0x82, 0xa1, 'a', 0xa1, 'x', 0xa2, 'z', 'z'}
				if c.G(2) == 0 {
					prefix = []byte{0x81, 0xa2, 'z', 'z'}
				}
				nestT = &TDesc{K: KObject, Names: []string{"a"}, Elems: []*TDesc{tString}}
			case 0:
				codec, unit = "json", []byte("[")
			case 1:
				codec, unit, tail, closeUnit = "json", []byte(`{"a":`), []byte("1"), []byte("}")
			case 2:
				unit = []byte{0x91}
			case 3:
				unit = []byte{0x81, 0xa1, 'a'}
			case 4:
				unit, tail = append([]byte{0x92, 0xc4, 9}, `"dynamic"`...), []byte{0xc0}
			default:
				unit, tail = append(append([]byte{0x92, 0xc4, 18}, `["list","dynamic"]`...), 0x91), []byte{0xc0}
			}
			b := append(append([]byte(nil), prefix...), bytes.Repeat(unit, levels)...)
			b = append(b, tail...)
			b = append(b, bytes.Repeat(closeUnit, levels)...)
			rec = c17Record{codec: codec, data: b, t: nestT, enc: nestT, desc: fmt.Sprintf("%x %q x %d", prefix, unit, levels)}
			c.Probe("c17.megabytes-of-nesting")
		}
		store[ri] = rec
		c.Probe("c17.huge-exponent-document")
	}
	var others [][]byte
	for i, r := range store {
		if i != ri {
			others = append(others, r.data)
		}
	}
	// ---- the store damages the record between write and read
	data := append([]byte(nil), rec.data...)
	drawnControl := c.F(10) == 0
	control := (drawnControl || forced) && rec.codec != "noise" && rec.codec != "crafted"
	var applied []string
	if !control {
		var enabled []int
		for k := range c17FaultNames {
			if c.F(3) != 0 {
				enabled = append(enabled, k)
			}
		}
		if len(enabled) == 0 {
			enabled = []int{0}
		}
		nf := 1 + c.F(4)
		if rec.codec == "noise" || rec.codec == "crafted" {
			nf = c.F(3)
		}
		for k := 0; k < nf; k++ {
			f := enabled[c.F(len(enabled))]
			nd := c17ApplyFault(c, f, data, others)
			if string(nd) != string(data) {
				applied = append(applied, c17FaultNames[f])
			}
			data = nd
			if len(data) > c17MaxRecord {
				data = data[:c17MaxRecord]
			}
		}
	}
	data, capped := capExponents(data)
	if capped {
		c.Probe("c17.exponent-capped")
	}
	hugeExp := hasBigExponent(data)
	// ---- reads: target type equal to, derived from, or unrelated to the original
	var target *TDesc
	rel := "unrelated"
	switch {
	case rec.alt != nil && !control && c.G(2) == 0:
		target, rel = rec.alt[c.G(len(rec.alt))], "derived"
	case rec.enc == nil || (!control && c.G(6) == 0):
		target = genType(c, 3, GenOpts{Dynamic: true, Optional: c.G(4) == 0, Capsule: c.G(5) == 0})
	case control || c.G(3) == 0:
		target, rel = rec.enc, "equal"
		if rec.codec == "jsontype" {
			target = tDynamic
		}
	default:
		target, rel = deriveType(c, rec.enc, 2), "derived"
		if rec.codec == "jsontype" {
			target = genType(c, 2, GenOpts{Dynamic: true})
		}
	}
	tty := target.Cty()
	for _, f := range applied {
		c.Fired(f)
	}
	if rec.codec == "noise" {
		c.Fired("store.noise")
	}
	if rec.codec == "crafted" {
		c.Fired("store.crafted")
	}
	c.Event("record %d (%s, %d bytes): %s", ri, rec.codec, len(rec.data), clip(rec.desc))
	c.Event("faults %v -> %d bytes %x", applied, len(data), clipBytes(data))
	c.Event("target (%s) %s", rel, target)
	c.AddShape(fmt.Sprintf("%s %s %v", rec.codec, rel, applied))
	c.Planned() // every choice is drawn and logged: from here on a decoder may kill the process
	if len(applied) > 0 || rec.codec == "noise" || rec.codec == "crafted" {
		c.NonTrivial()
	}

	type decoder struct {
		name  string
		value bool
		fn    func() (cty.Value, cty.Type, error)
	}
	decs := []decoder{
		{"json.Unmarshal", true, func() (cty.Value, cty.Type, error) {
			v, err := ctyjson.Unmarshal(data, tty)
			return v, cty.NilType, err
		}},
		{"json.ImpliedType", false, func() (cty.Value, cty.Type, error) { t, err := ctyjson.ImpliedType(data); return cty.NilVal, t, err }},
		{"json.UnmarshalType", false, func() (cty.Value, cty.Type, error) { t, err := ctyjson.UnmarshalType(data); return cty.NilVal, t, err }},
		{"msgpack.Unmarshal", true, func() (cty.Value, cty.Type, error) {
			v, err := msgpack.Unmarshal(data, tty)
			return v, cty.NilType, err
		}},
		{"msgpack.ImpliedType", false, func() (cty.Value, cty.Type, error) { t, err := msgpack.ImpliedType(data); return cty.NilVal, t, err }},
	}
	sig := func(name string) string {
		s := name + ":" + rec.codec
		if len(applied) > 0 {
			s += ":" + applied[len(applied)-1]
		}
		return s
	}
	for _, d := range decs {
		c.API(d.name)
		o := c17Guard(len(data), d.fn)
		if o.pan != nil {
			if ov, ok := o.pan.(verifseam.OversizeAlloc); ok {
				c.Fail("C17", "oversize-alloc", "oversize:"+d.name,
					"%s asked for %d bytes in one make() (total %d) while decoding a %d-byte record; the bound is 64 KiB + 4096 x the record size = %d\nrecord: %x\ntarget type: %s",
					d.name, ov.Requested, ov.Total, len(data), ov.Limit, clipBytes(data), target)
			}
			c.Fail("C17", "decoder-panic", "panic:"+d.name+":"+panicClass(o.pan),
				"%s panicked on a %d-byte record: %v\nrecord: %x\ntarget type: %s", d.name, len(data), o.pan, clipBytes(data), target)
		}
		// in-use bound: a constant plus 16384 x the record size. The constant is 4 MiB for the MessagePack decoders
		// (vmihailenco/msgpack reads a declared blob in 1 MB chunks and doubles once before it meets the end of
		// the input: not go-cty's, not proportional to the input) and 1 MiB for the JSON decoders, which have no
		// declared lengths
		konst := uint64(4 << 20)
		if strings.HasPrefix(d.name, "json.") {
			konst = 1 << 20
		}
		bound := konst + 16384*uint64(len(data))
		// allocation totals are slightly noisy: a search run reports only what exceeds the bound by a
		// quarter, the fresh-process confirmation accepts anything above the bound itself
		report := bound + bound/4
		if confirmMode {
			report = bound
		}
		if o.alloc > bound {
			// The total allocated while decoding is only a screen (cheap, but it also counts what was garbage
			// right away: sorting a set of sets of numbers renders the same numbers again and again and
			// allocates tens of kilobytes per input byte without ever holding more than a few at a time).
			// What the property bounds is the memory in use: measure the peak of the live heap over the decode
			// (three times, keeping the smallest: the first call in a process also pays for lazily built tables
			// in math/big and encoding/json, which are not the record's doing).
			c.Probe("c17.total-allocation-above-bound:" + d.name)
			ex := peakLive(func() { d.fn() })
			for k := 0; k < 2; k++ {
				if e2 := peakLive(func() { d.fn() }); e2 < ex {
					ex = e2
				}
			}
			if ex > report {
				asig := "alloc:" + d.name
				if hugeExp {
					// the recorded finding is about numbers that get hashed or compared: members of sets (or
					// whatever a dynamic position turns out to hold); elsewhere a huge exponent costs nothing
					asig += ":huge-exponent"
					if !tdescHas(target, func(t *TDesc) bool { return t.K == KSet || t.K == KDynamic }) {
						asig += ":no-set-in-target"
					}
				}
				c.Fail("C17", "excessive-allocation", asig,
					"%s held %d bytes of heap at its peak (and allocated %d in total) while decoding a %d-byte record; the bound is %d MiB + 16384 x the record size = %d\nrecord: %x\ntarget type: %s",
					d.name, ex, exactAlloc(func() { d.fn() }), len(data), konst>>20, bound, clipBytes(data), target)
			}
		}
		if o.alloc > bound/8 {
			c.Probe("c17.alloc-above-eighth-of-bound:" + d.name)
		}
		if o.err != nil {
			c.Probe("c17.error:" + d.name)
			if control && ((d.name == "json.Unmarshal" && rec.codec == "json") || (d.name == "msgpack.Unmarshal" && rec.codec == "msgpack") || (d.name == "json.UnmarshalType" && rec.codec == "jsontype")) {
				c.Probe("c17.control-failed:" + d.name)
				if os.Getenv("VERIF_DEBUG_CONTROL") != "" {
					fmt.Fprintf(os.Stderr, "control failed: %s: %v | %s | %s\n", d.name, o.err, clip(rec.desc), target)
				}
			}
			continue
		}
		c.Probe("c17.ok:" + d.name)
		if len(applied) > 0 {
			c.Probe("c17.ok-after-fault:" + d.name)
		}
		if d.value {
			if o.val == cty.NilVal {
				if strings.HasPrefix(c.Sim, "C06/") {
					observe(c, o.val, d.name) // (for the monitor's own command this is a value like any other: one without a type)
				}
				c.Fail("C17", "no-result", "no-result:"+d.name, "%s returned neither an error nor a value\nrecord: %x", d.name, clipBytes(data))
			}
			if hugeExp {
				c.Probe("c17.wellformedness-skipped-huge-exponent")
			} else {
				observe(c, o.val, d.name)
			}
			if errs := o.val.Type().TestConformance(tty); len(errs) > 0 {
				c.Fail("C17", "nonconforming-value", "nonconforming:"+sig(d.name),
					"%s returned %s, whose type does not conform to the requested %s: %v\nrecord: %x", d.name, safeGoString(o.val), target, errs[0], clipBytes(data))
			}
			if control {
				c.Probe("c17.control-ok:" + d.name)
			}
		} else {
			if msg := typeWellFormed(o.ty, 0); msg != "" {
				c.Fail("C17", "malformed-type", "malformed-type:"+d.name, "%s returned a type that is not well-formed: %s\nrecord: %x", d.name, msg, clipBytes(data))
			}
			if strings.HasSuffix(d.name, "ImpliedType") {
				// the implied type is usable as a decoding target for the same bytes
				var v cty.Value
				var err error
				o2 := c17Guard(len(data), func() (cty.Value, cty.Type, error) {
					if d.name == "json.ImpliedType" {
						v, err = ctyjson.Unmarshal(data, o.ty)
					} else {
						v, err = msgpack.Unmarshal(data, o.ty)
					}
					return v, cty.NilType, err
				})
				if o2.pan != nil {
					c.Fail("C17", "decoder-panic", "panic:decode-with-implied-type:"+d.name+":"+panicClass(o2.pan),
						"decoding a record with the type %s reported for it panicked: %v\nrecord: %x", d.name, o2.pan, clipBytes(data))
				}
				if err == nil && v != cty.NilVal && !hugeExp {
					observe(c, v, d.name+"+Unmarshal")
					c.Probe("c17.implied-type-decodes")
				}
			}
		}
	}
}

func clipBytes(b []byte) []byte {
	if len(b) > 300 {
		return b[:300]
	}
	return b
}

// The checker does not explore decimal exponents beyond 10^6 (10^-4 for negative ones): go-cty
// compares and hashes numbers through their full decimal expansion, so a value such as 1e-999999
// costs minutes of CPU in any operation that touches it (a finding in its own right, recorded in
// known_findings.txt through its memory footprint at 10^6), and a check that takes minutes per
// record explores nothing. Longer exponents in a damaged record are cut to that many digits.
func capExponents(b []byte) ([]byte, bool) {
	var out []byte
	changed := false
	for i := 0; i < len(b); i++ {
		out = append(out, b[i])
		if (b[i] != 'e' && b[i] != 'E') || i == 0 || !((b[i-1] >= '0' && b[i-1] <= '9') || b[i-1] == '.') {
			continue
		}
		j := i + 1
		neg := false
		if j < len(b) && (b[j] == '+' || b[j] == '-') {
			neg = b[j] == '-'
			out = append(out, b[j])
			j++
		}
		k := j
		for k < len(b) && b[k] >= '0' && b[k] <= '9' {
			k++
		}
		max := 6
		if neg {
			max = 4
		}
		if k-j >= 10 {
			// (ten digits and more: beyond what math/big's number parser accepts at all - refused, or turned into
			// an infinity or a zero, in microseconds; nothing is expanded)
			out = append(out, b[j:k]...)
		} else if k-j > max {
			out = append(out, b[j:j+max]...)
			changed = true
		} else {
			out = append(out, b[j:k]...)
		}
		i = k - 1
	}
	if !changed {
		return b, false
	}
	return out, true
}

// hasBigExponent reports a decimal exponent of five or more digits (four for negative ones).
func hasBigExponent(b []byte) bool {
	for i := 1; i < len(b); i++ {
		if (b[i] != 'e' && b[i] != 'E') || !((b[i-1] >= '0' && b[i-1] <= '9') || b[i-1] == '.') {
			continue
		}
		j := i + 1
		need := 5
		if j < len(b) && (b[j] == '+' || b[j] == '-') {
			if b[j] == '-' {
				need = 4
			}
			j++
		}
		k := j
		for k < len(b) && b[k] >= '0' && b[k] <= '9' {
			k++
		}
		if k-j >= need && k-j < 10 { // (ten digits and more cost nothing: see capExponents)
			return true
		}
	}
	return false
}

// tdescHas reports whether pred holds for t or any type nested in it.
func tdescHas(t *TDesc, pred func(*TDesc) bool) bool {
	if t == nil {
		return false
	}
	if pred(t) {
		return true
	}
	if t.Elem != nil && tdescHas(t.Elem, pred) {
		return true
	}
	for _, e := range t.Elems {
		if tdescHas(e, pred) {
			return true
		}
	}
	return false
}
