package main

import (
	"fmt"
	"hash/fnv"
	"sort"
	"strings"

	"verif/internal/tape"
)

// Violation is what a simulated run reports.
type Violation struct {
	Property  string // property id the violation is against (C06 monitor failures are C06 whatever the sim)
	Class     string
	Signature string // stable, low-cardinality description used by known-findings matchers
	Detail    string
}

type violationPanic struct{ v *Violation }

// Ctx is the per-run context: the only source of choices, the event log and the counters.
type Ctx struct {
	Sim   string
	Tier  string
	Src   *tape.Source
	Knobs map[string]string

	hash   uint64
	nEv    int
	Trace  []string
	maxTr  int
	Stats  *Stats
	faults map[string]int
	probes map[string]int
	api    map[string]int

	nonTrivial bool
	shape      string // program/schedule/fault shape hash input for distinctness

	// Mute, when set, is asked before a violation is raised: true ends the run without a verdict (counted in a
	// probe). For oracles that reach a question the property's statement leaves open in this very run.
	Mute func(property, class string) bool
}

func NewCtx(sim, tier string, src *tape.Source, st *Stats) *Ctx {
	return &Ctx{Sim: sim, Tier: tier, Src: src, Stats: st, maxTr: 400, hash: 1469598103934665603,
		faults: map[string]int{}, probes: map[string]int{}, api: map[string]int{}, Knobs: map[string]string{}}
}

// --- choices ---------------------------------------------------------------

func (c *Ctx) Int(st tape.Stream, n int) int {
	if n <= 1 {
		// still consume a draw so that tapes stay aligned when bounds change
		c.Src.Draw(st, 1)
		return 0
	}
	return int(c.Src.Draw(st, uint64(n)))
}
func (c *Ctx) G(n int) int { return c.Int(tape.Gen, n) }
func (c *Ctx) F(n int) int { return c.Int(tape.Fault, n) }

// Chance is true with probability num/den; a zero draw is always false ("simplest": no fault).
func (c *Ctx) Chance(st tape.Stream, num, den int) bool {
	return int(c.Src.Draw(st, uint64(den))) >= den-num
}
func (c *Ctx) U64(st tape.Stream) uint64 { return c.Src.Draw(st, 1<<62) }

// Range draws lo..hi inclusive, lo being the simplest.
func (c *Ctx) Range(st tape.Stream, lo, hi int) int {
	if hi <= lo {
		c.Src.Draw(st, 1)
		return lo
	}
	return lo + int(c.Src.Draw(st, uint64(hi-lo+1)))
}

// --- events ----------------------------------------------------------------

// Event appends to the event log (hashed; the last lines are kept for the replay file).
// It never draws and never reads a clock.
func (c *Ctx) Event(f string, a ...interface{}) {
	s := fmt.Sprintf(f, a...)
	for i := 0; i < len(s); i++ {
		c.hash ^= uint64(s[i])
		c.hash *= 1099511628211
	}
	c.hash ^= 0xff
	c.hash *= 1099511628211
	c.nEv++
	if len(c.Trace) < c.maxTr {
		if len(s) > 600 {
			s = s[:600] + "…"
		}
		c.Trace = append(c.Trace, s)
	} else if len(c.Trace) == c.maxTr {
		c.Trace = append(c.Trace, "… (trace truncated; the event hash covers everything)")
	}
}

func (c *Ctx) EventHash() string { return fmt.Sprintf("%016x/%d", c.hash, c.nEv) }

// --- counters --------------------------------------------------------------

func (c *Ctx) Fired(kind string) { c.faults[kind]++; c.nonTrivial = true }
func (c *Ctx) Probe(name string) { c.probes[name]++ }
func (c *Ctx) API(name string)   { c.api[name]++ }
func (c *Ctx) NonTrivial()       { c.nonTrivial = true }
func (c *Ctx) AddShape(s string) { c.shape += s + "|" }

// Fail aborts the run with a violation.
func (c *Ctx) Fail(property, class, signature, f string, a ...interface{}) {
	if strings.HasPrefix(c.Sim, "C06/") && property != "C06" {
		// the monitor's command borrows another check's workload (the record store) only as a source of values:
		// that check's own oracles are not this command's business; the run ends here without a verdict
		c.Probe("c06.borrowed-workload-ended-by-other-oracle:" + property + ":" + class)
		panic(mutedPanic{})
	}
	if c.Mute != nil && c.Mute(property, class) {
		c.Probe("muted:" + property + ":" + class)
		panic(mutedPanic{})
	}
	panic(violationPanic{&Violation{Property: property, Class: class, Signature: signature, Detail: fmt.Sprintf(f, a...)}})
}

// mutedPanic ends a run without a violation (see Fail).
type mutedPanic struct{}

// --- aggregated statistics -------------------------------------------------

type Stats struct {
	Runs       int            `json:"runs"`
	NonTrivial int            `json:"nontrivial_runs"`
	Distinct   map[uint64]int `json:"-"`
	Faults     map[string]int `json:"fault_fired"`
	Probes     map[string]int `json:"probes"`
	API        map[string]int `json:"api_surface"`
	Steps      int64          `json:"sim_steps"`
	Yields     uint64         `json:"yields"`
	Switches   uint64         `json:"context_switches"`
	MidCall    uint64         `json:"mid_call_switches"`
	Schedules  map[uint64]int `json:"-"`
	States     map[uint64]int `json:"-"`
	Samples    []interface{}  `json:"samples"`
	Values     int64          `json:"values_checked_wellformed"`
	Producers  map[string]int `json:"wellformed_by_producer"`
	Extra      map[string]int `json:"extra"`
}

func NewStats() *Stats {
	return &Stats{Distinct: map[uint64]int{}, Faults: map[string]int{}, Probes: map[string]int{}, API: map[string]int{},
		Schedules: map[uint64]int{}, States: map[uint64]int{}, Producers: map[string]int{}, Extra: map[string]int{}}
}

func hashString(s string) uint64 {
	h := fnv.New64a()
	h.Write([]byte(s))
	return h.Sum64()
}

// Absorb folds one finished run into the aggregate.
func (st *Stats) Absorb(c *Ctx) {
	st.Runs++
	for k, v := range c.faults {
		st.Faults[k] += v
	}
	for k, v := range c.probes {
		st.Probes[k] += v
	}
	for k, v := range c.api {
		st.API[k] += v
	}
	if c.nonTrivial {
		st.NonTrivial++
		// distinct = distinct (shape, fault multiset)
		keys := make([]string, 0, len(c.faults))
		for k := range c.faults {
			keys = append(keys, fmt.Sprintf("%s=%d", k, c.faults[k]))
		}
		sort.Strings(keys)
		st.Distinct[hashString(c.shape+"#"+strings.Join(keys, ","))]++
	}
	st.Steps += int64(c.nEv)
}

// Planned marks the point where every choice of the run has been drawn.
func (c *Ctx) Planned() {
	if onPlanned != nil {
		onPlanned(c)
	}
}
