package main

import (
	"fmt"
	"os"
	rtcov "runtime/coverage"
)

// dumpCoverage writes coverage counters when the worker was built with -cover (developer aid for
// finding library code no simulation reaches; the registered checks never build with -cover).
func dumpCoverage() {
	d := os.Getenv("VERIF_COVDIR")
	if d == "" {
		return
	}
	if err := rtcov.WriteMetaDir(d); err != nil {
		fmt.Fprintln(os.Stderr, "coverage:", err)
		return
	}
	if err := rtcov.WriteCountersDir(d); err != nil {
		fmt.Fprintln(os.Stderr, "coverage:", err)
	}
}
