package main

// C06, second workload: conversions. The monitor's own world converts pool values to drawn
// targets only now and then; this simulation does nothing else. A source value with null, unknown,
// refined, empty and marked members at every depth is converted to a target derived from its own
// type by several edits at once (kind swaps between sequence kinds and between mapping kinds,
// optional attributes on every object, extra optional attributes, primitives turned into other
// primitives or the placeholder), through every entry point of the convert package, and the result
// is converted again. Whether a conversion exists, succeeds or conforms is not judged here
// (properties C08/C09, not decided by this work): every value that comes back, and every member
// reached from it, goes through the well-formedness monitor.

import (
	"fmt"

	"github.com/zclconf/go-cty/cty"
	"github.com/zclconf/go-cty/cty/convert"
)

// convTarget derives a conversion target from t; p is the per-node probability (1/p) of a structural edit.
func convTarget(c *Ctx, t *TDesc, p int) *TDesc {
	rec := func(x *TDesc) *TDesc { return convTarget(c, x, p) }
	edit := c.G(p) == 0
	switch t.K {
	case KString, KNumber, KBool:
		if edit {
			return []*TDesc{tString, tNumber, tBool, tDynamic}[c.G(4)]
		}
		return t
	case KList, KSet:
		k := t.K
		if edit {
			k = []Kind{KList, KSet}[c.G(2)]
			if c.G(4) == 0 {
				n := c.G(4)
				tt := &TDesc{K: KTuple}
				for i := 0; i < n; i++ {
					tt.Elems = append(tt.Elems, rec(t.Elem))
				}
				return tt
			}
		}
		return &TDesc{K: k, Elem: rec(t.Elem)}
	case KTuple:
		if edit && len(t.Elems) > 0 {
			return &TDesc{K: []Kind{KList, KSet}[c.G(2)], Elem: rec(t.Elems[c.G(len(t.Elems))])}
		}
		n := &TDesc{K: KTuple}
		for _, e := range t.Elems {
			n.Elems = append(n.Elems, rec(e))
		}
		return n
	case KMap:
		if edit {
			n := &TDesc{K: KObject, Names: []string{"a", "k", "zz"}, Optional: []bool{c.G(2) == 0, c.G(2) == 0, c.G(2) == 0}}
			for range n.Names {
				n.Elems = append(n.Elems, rec(t.Elem))
			}
			return n
		}
		return &TDesc{K: KMap, Elem: rec(t.Elem)}
	case KObject:
		if edit && len(t.Elems) > 0 {
			return &TDesc{K: KMap, Elem: rec(t.Elems[c.G(len(t.Elems))])}
		}
		// the same attributes, each possibly optional, possibly one more optional attribute
		n := &TDesc{K: KObject, Optional: []bool{}}
		has := map[string]bool{}
		for i, name := range t.Names {
			if c.G(8) == 0 {
				continue // dropped: conversion discards the surplus attribute
			}
			n.Names = append(n.Names, name)
			n.Elems = append(n.Elems, rec(t.Elems[i]))
			n.Optional = append(n.Optional, c.G(2) == 0)
			has[nfc(name)] = true
		}
		if c.G(3) == 0 && !has["opt"] {
			n.Names = append(n.Names, "opt")
			n.Elems = append(n.Elems, []*TDesc{tString, {K: KList, Elem: tString}, {K: KObject, Names: []string{"in"}, Elems: []*TDesc{tNumber}, Optional: []bool{true}}}[c.G(3)])
			n.Optional = append(n.Optional, true)
		}
		return n
	}
	if edit {
		return tDynamic
	}
	return t
}

func c06GenConvSource(c *Ctx) *TDesc {
	switch c.G(4) {
	case 0:
		// collections of structures: where element types meet optional attributes
		obj := genType(c, 1, GenOpts{})
		for tries := 0; obj.K != KObject && tries < 4; tries++ {
			obj = genType(c, 1, GenOpts{})
		}
		return &TDesc{K: []Kind{KList, KSet, KMap}[c.G(3)], Elem: obj}
	case 1:
		inner := c06GenConvSource(c)
		return &TDesc{K: KObject, Names: []string{"a", "k"}, Elems: []*TDesc{inner, genType(c, 1, GenOpts{})}}
	}
	return genType(c, 3, GenOpts{Dynamic: c.G(4) == 0})
}

func simC06Conversions(c *Ctx) {
	t := c06GenConvSource(c)
	d := genValue(c, t, 3, GenOpts{Null: true, Unknown: true, Refine: true, Marks: c.G(3) == 0, MaxLen: 3, Collide: c.G(4) == 0})
	stripSetMarks(d)
	dedupeSets(d, true)
	v := d.Build()
	observe(c, v, "C06:source")
	c.Event("source %s", d)
	nTargets := 1 + c.G(3)
	for q := 0; q < nTargets; q++ {
		target := convTarget(c, t, 2+c.G(4))
		tty := target.Cty()
		c.Event("target %s", target)
		cur := v
		for round := 0; round < 2; round++ {
			var r cty.Value
			var err error
			how := c.G(4)
			pan := catch(func() {
				switch how {
				case 0:
					r, err = convert.Convert(cur, tty)
				case 1:
					if conv := convert.GetConversion(cur.Type(), tty); conv != nil {
						r, err = conv(cur)
					} else {
						err = fmt.Errorf("no conversion")
					}
				case 2:
					if conv := convert.GetConversionUnsafe(cur.Type(), tty); conv != nil {
						r, err = conv(cur)
					} else {
						err = fmt.Errorf("no conversion")
					}
				default:
					// through unification with the (annotation-free) target
					uty, convs := convert.UnifyUnsafe([]cty.Type{cur.Type(), tty.WithoutOptionalAttributesDeep()})
					if uty != cty.NilType && convs[0] != nil {
						r, err = convs[0](cur)
					} else if uty != cty.NilType {
						r = cur
					} else {
						err = fmt.Errorf("no unification")
					}
				}
			})
			c.API([]string{"convert.Convert", "convert.GetConversion", "convert.GetConversionUnsafe", "convert.UnifyUnsafe"}[how])
			if pan != nil {
				c.Probe("c06.conversion-panicked(C08,not-claimed)")
				break
			}
			if err != nil {
				c.Probe("c06.conv:refused")
				break
			}
			producer := []string{"convert.Convert", "GetConversion", "GetConversionUnsafe", "Unify conversion"}[how]
			observe(c, r, producer)
			observeMembers(c, r, producer, 0)
			c.Probe("c06.conv:converted")
			if typeHasOptional(tty) {
				c.Probe("c06.conv:converted-to-optional-target")
			}
			if ur, _ := r.Unmark(); !ur.IsWhollyKnown() {
				c.Probe("c06.conv:result-with-unknowns")
			}
			// convert the result again, to another target derived from the first
			cur = r
			target = convTarget(c, target, 3)
			tty = target.Cty()
		}
	}
	c.AddShape(fmt.Sprintf("conv t=%s", t))
	c.NonTrivial()
}
