package main

// C05 — refinements only narrow, are faithful, and prefixes are continuation-safe.
// DESIGN.md §5-C05. Two simulations share this file:
//   histories: seeded sequences of refinement-builder calls with interleaved NewValue
//              snapshots, against an interval / nullness / prefix / length model;
//   cuts:      every rune-boundary cut of generated strings as a "torn prefix", with
//              drawn continuations.

import (
	"fmt"
	"math"
	"math/big"
	"strings"
	"unicode/utf8"

	"github.com/zclconf/go-cty/cty"
	"github.com/zclconf/go-cty/cty/ctystrings"
)

type c05Model struct {
	t          *TDesc
	dynamic    bool
	knownNum   *big.Float // known non-null start value (one of these is set)
	knownStr   *string
	knownLen   int // known collection: its length
	knownOther bool
	known      bool
	startNull  bool

	null         int // 0 unknown, 1 definitely null, 2 definitely not null
	hasLo, hasHi bool
	lo, hi       *big.Float
	loInc, hiInc bool
	minLen       int
	maxLen       int
	prefix       string
}

const (
	expAccept = iota
	expReject
	expEither
)

const (
	opNotNull = iota
	opLower
	opUpper
	opNull
	opRangeInc
	opLenLower
	opLenUpper
	opLen
	opPrefix
	opPrefixFull
	numC05Ops
	opNone = -1 // "no call yet" (the range of the start value itself)
)

var c05OpNames = []string{"NotNull", "NumberRangeLowerBound", "NumberRangeUpperBound", "Null", "NumberRangeInclusive",
	"CollectionLengthLowerBound", "CollectionLengthUpperBound", "CollectionLength", "StringPrefix", "StringPrefixFull"}

type c05Call struct {
	op       int
	num      NumDesc
	num2     NumDesc
	boundKnd int // 0 finite, 1 unknown, 2 harmless infinity
	inc      bool
	n        int
	s        string
}

func (k c05Call) String() string {
	if k.op == opNone {
		return "(no refinement yet)"
	}
	switch k.op {
	case opLower, opUpper:
		b := k.num.String()
		if k.boundKnd == 1 {
			b = "unknown"
		} else if k.boundKnd == 2 {
			b = "harmless-infinity"
		}
		return fmt.Sprintf("%s(%s, inclusive=%t)", c05OpNames[k.op], b, k.inc)
	case opRangeInc:
		return fmt.Sprintf("NumberRangeInclusive(%s, %s)", k.num, k.num2)
	case opLenLower, opLenUpper, opLen:
		return fmt.Sprintf("%s(%d)", c05OpNames[k.op], k.n)
	case opPrefix, opPrefixFull:
		return fmt.Sprintf("%s(%+q)", c05OpNames[k.op], k.s)
	}
	return c05OpNames[k.op] + "()"
}

var c05StartTypes = []*TDesc{
	tNumber, tString,
	{K: KList, Elem: tString}, {K: KSet, Elem: tNumber}, {K: KMap, Elem: tString},
	tBool, {K: KObject, Names: []string{"a"}, Elems: []*TDesc{tString}}, {K: KTuple, Elems: []*TDesc{tNumber}},
	{K: KCapsule, Cap: 0},
}

var c05Prefixes = []string{"a", "ab", "abc", "hel", "hello", "\u00e9", "e\u0301", "e", "x-", "x-y", "\u1100", "\uac00", "", "b", "a\u0301"}

func collOfLen(t *TDesc, n int) cty.Value {
	ety := t.Elem.Cty()
	elem := func(i int) cty.Value {
		if t.Elem.K == KNumber {
			return cty.NumberIntVal(int64(i))
		}
		return cty.StringVal(fmt.Sprintf("s%d", i))
	}
	switch t.K {
	case KList:
		if n == 0 {
			return cty.ListValEmpty(ety)
		}
		vs := make([]cty.Value, n)
		for i := range vs {
			vs[i] = elem(i % 2) // duplicates are fine in lists
		}
		return cty.ListVal(vs)
	case KSet:
		if n == 0 {
			return cty.SetValEmpty(ety)
		}
		vs := make([]cty.Value, n)
		for i := range vs {
			vs[i] = elem(i)
		}
		return cty.SetVal(vs)
	default:
		if n == 0 {
			return cty.MapValEmpty(ety)
		}
		m := map[string]cty.Value{}
		for i := 0; i < n; i++ {
			m[fmt.Sprintf("k%d", i)] = elem(i)
		}
		return cty.MapVal(m)
	}
}

// candidate is a concrete value tested for membership, with what the model needs to know about it.
type c05Cand struct {
	v        cty.Value
	desc     string
	null     bool
	num      *big.Float
	str      *string
	length   int
	lenLo    int  // for a known set that stores unknown members: the least length it may turn out to have (its
	partial  bool // wholly known members cannot coalesce, its unknown ones may); length is then the greatest
	sameType bool
	excluded bool // the library answered False once: it must keep answering False
}

func (m *c05Model) admits(cd *c05Cand) bool {
	if !cd.sameType {
		return false
	}
	if m.known {
		switch {
		case cd.null:
			return false
		case m.knownNum != nil:
			return cd.num != nil && numCmp(cd.num, m.knownNum) == 0
		case m.knownStr != nil:
			return cd.str != nil && *cd.str == *m.knownStr
		case m.t.K == KList || m.t.K == KSet || m.t.K == KMap:
			if cd.partial {
				return false // (a known start value is compared with wholly known candidates only)
			}
			return cd.length == m.knownLen // collOfLen is a function of (type, length)
		}
		return true // other known kinds: candidates are not compared exactly
	}
	if m.startNull {
		return cd.null
	}
	if cd.null {
		return m.null != 2
	}
	if m.null == 1 {
		return false
	}
	switch m.t.K {
	case KNumber:
		if m.hasLo {
			c := numCmp(cd.num, m.lo)
			if c < 0 || (c == 0 && !m.loInc) {
				return false
			}
		}
		if m.hasHi {
			c := numCmp(cd.num, m.hi)
			if c > 0 || (c == 0 && !m.hiInc) {
				return false
			}
		}
	case KString:
		return strings.HasPrefix(*cd.str, m.prefix)
	case KList, KSet, KMap:
		if cd.partial {
			// admitted if some length it may turn out to have is: never to be answered False then
			return cd.length >= m.minLen && cd.lenLo <= m.maxLen
		}
		return cd.length >= m.minLen && cd.length <= m.maxLen
	}
	return true
}

func tighterLo(hasOld bool, old *big.Float, oldInc bool, b *big.Float, inc bool) (*big.Float, bool) {
	if !hasOld {
		return b, inc
	}
	c := numCmp(b, old)
	switch {
	case c > 0:
		return b, inc
	case c < 0:
		return old, oldInc
	}
	return old, oldInc && inc
}

func tighterHi(hasOld bool, old *big.Float, oldInc bool, b *big.Float, inc bool) (*big.Float, bool) {
	if !hasOld {
		return b, inc
	}
	c := numCmp(b, old)
	switch {
	case c < 0:
		return b, inc
	case c > 0:
		return old, oldInc
	}
	return old, oldInc && inc
}

func intervalEmpty(lo *big.Float, loInc bool, hi *big.Float, hiInc bool) bool {
	c := numCmp(lo, hi)
	return c > 0 || (c == 0 && !(loInc && hiInc))
}

// expect computes, from the statement alone, whether a call must be accepted or rejected,
// and returns the function that updates the model if it was accepted.
func (m *c05Model) expect(k c05Call) (int, func()) {
	nop := func() {}
	if m.dynamic {
		return expAccept, nop
	}
	if m.startNull {
		switch k.op {
		case opNotNull:
			return expReject, nop
		case opNull:
			return expAccept, nop
		}
		return expEither, nop
	}
	if m.known {
		switch k.op {
		case opNotNull:
			return expAccept, nop
		case opNull:
			return expReject, nop
		case opLower:
			if k.boundKnd != 0 {
				return expAccept, nop
			}
			b := k.num.Float()
			c := numCmp(b, m.knownNum)
			if c > 0 || (c == 0 && !k.inc) {
				return expReject, nop
			}
			return expAccept, nop
		case opUpper:
			if k.boundKnd != 0 {
				return expAccept, nop
			}
			b := k.num.Float()
			c := numCmp(b, m.knownNum)
			if c < 0 || (c == 0 && !k.inc) {
				return expReject, nop
			}
			return expAccept, nop
		case opRangeInc:
			if numCmp(k.num.Float(), m.knownNum) > 0 || numCmp(k.num2.Float(), m.knownNum) < 0 {
				return expReject, nop
			}
			return expAccept, nop
		case opLenLower:
			if k.n > m.knownLen {
				return expReject, nop
			}
			return expAccept, nop
		case opLenUpper:
			if k.n < m.knownLen {
				return expReject, nop
			}
			return expAccept, nop
		case opLen:
			if k.n != m.knownLen {
				return expReject, nop
			}
			return expAccept, nop
		case opPrefixFull:
			if !strings.HasPrefix(*m.knownStr, nfc(k.s)) {
				return expReject, nop
			}
			return expAccept, nop
		case opPrefix:
			if strings.HasPrefix(*m.knownStr, nfc(k.s)) {
				return expAccept, nop
			}
			return expEither, nop // the safe constructor may have trimmed the contradiction away
		}
		return expEither, nop
	}
	// unknown start
	soften := func(e int, f func()) (int, func()) {
		if m.null == 1 && e == expReject {
			return expEither, nop
		}
		return e, f
	}
	switch k.op {
	case opNotNull:
		if m.null == 1 {
			return expReject, nop
		}
		return expAccept, func() { m.null = 2 }
	case opNull:
		if m.null == 2 {
			return expReject, nop
		}
		return expAccept, func() { m.null = 1 }
	case opLower:
		if k.boundKnd != 0 {
			return expAccept, nop
		}
		nl, ni := tighterLo(m.hasLo, m.lo, m.loInc, k.num.Float(), k.inc)
		if m.hasHi && intervalEmpty(nl, ni, m.hi, m.hiInc) {
			return soften(expReject, nop)
		}
		return expAccept, func() { m.hasLo, m.lo, m.loInc = true, nl, ni }
	case opUpper:
		if k.boundKnd != 0 {
			return expAccept, nop
		}
		nh, ni := tighterHi(m.hasHi, m.hi, m.hiInc, k.num.Float(), k.inc)
		if m.hasLo && intervalEmpty(m.lo, m.loInc, nh, ni) {
			return soften(expReject, nop)
		}
		return expAccept, func() { m.hasHi, m.hi, m.hiInc = true, nh, ni }
	case opRangeInc:
		nl, nli := tighterLo(m.hasLo, m.lo, m.loInc, k.num.Float(), true)
		nh, nhi := tighterHi(m.hasHi, m.hi, m.hiInc, k.num2.Float(), true)
		if intervalEmpty(nl, nli, nh, nhi) {
			return soften(expReject, nop)
		}
		return expAccept, func() { m.hasLo, m.lo, m.loInc, m.hasHi, m.hi, m.hiInc = true, nl, nli, true, nh, nhi }
	case opLenLower:
		nm := m.minLen
		if k.n > nm {
			nm = k.n
		}
		if nm > m.maxLen {
			return soften(expReject, nop)
		}
		return expAccept, func() { m.minLen = nm }
	case opLenUpper:
		nm := m.maxLen
		if k.n < nm {
			nm = k.n
		}
		if nm < m.minLen {
			return soften(expReject, nop)
		}
		return expAccept, func() { m.maxLen = nm }
	case opLen:
		if k.n < m.minLen || k.n > m.maxLen || k.n < 0 {
			return soften(expReject, nop)
		}
		return expAccept, func() { m.minLen, m.maxLen = k.n, k.n }
	case opPrefixFull:
		p := nfc(k.s)
		if !strings.HasPrefix(p, m.prefix) && !strings.HasPrefix(m.prefix, p) {
			return soften(expReject, nop)
		}
		return expAccept, func() {
			if len(p) > len(m.prefix) {
				m.prefix = p
			}
		}
	case opPrefix:
		p := nfc(k.s)
		if strings.HasPrefix(p, m.prefix) || strings.HasPrefix(m.prefix, p) {
			return expAccept, nop // model prefix is adopted from the observation, after validation
		}
		return expEither, nop
	}
	return expEither, nop
}

func (m *c05Model) describe() string {
	if m.dynamic {
		return "dynamic"
	}
	if m.known {
		return "known start value"
	}
	if m.startNull {
		return "known null start"
	}
	s := fmt.Sprintf("null=%d", m.null)
	if m.hasLo {
		s += fmt.Sprintf(" lo=%s/%t", m.lo.Text('g', 20), m.loInc)
	}
	if m.hasHi {
		s += fmt.Sprintf(" hi=%s/%t", m.hi.Text('g', 20), m.hiInc)
	}
	if m.t.K == KString {
		s += fmt.Sprintf(" prefix=%+q", m.prefix)
	}
	if m.t.K == KList || m.t.K == KSet || m.t.K == KMap {
		s += fmt.Sprintf(" len=%d..%d", m.minLen, m.maxLen)
	}
	return s
}

func c05GenCall(c *Ctx, t *TDesc, dynamic bool) c05Call {
	var ops []int
	switch {
	case dynamic:
		ops = []int{opNotNull, opLower, opUpper, opNull, opLenLower, opLenUpper, opPrefix, opPrefixFull}
	case t.K == KNumber:
		ops = []int{opNotNull, opLower, opUpper, opLower, opUpper, opNull, opRangeInc}
	case t.K == KString:
		ops = []int{opNotNull, opPrefix, opPrefixFull, opPrefixFull, opNull}
	case t.K == KList || t.K == KSet || t.K == KMap:
		ops = []int{opNotNull, opLenLower, opLenUpper, opLenLower, opLenUpper, opNull, opLen}
	default:
		ops = []int{opNotNull, opNull, opNotNull}
	}
	k := c05Call{op: ops[c.G(len(ops))]}
	switch k.op {
	case opLower, opUpper:
		k.num = NumDesc{Mode: NumParse, Text: numTexts[c.G(12)]}
		if c.G(8) == 7 {
			k.num = genNum(c, true)
			if k.num.Mode == NumPosInf || k.num.Mode == NumNegInf {
				k.num.Mode = NumParse
			}
		}
		if c05LastBound != nil && c.G(5) == 0 {
			// the number of an earlier bound again, produced another way (another precision, the same decimal): the
			// same number as far as equality goes, another one bit for bit
			k.num = *c05LastBound
			switch c.G(4) {
			case 0:
				k.num.Mode = NumParse
			case 1:
				k.num.Mode = NumFloat
			default:
				k.num.Mode, k.num.Prec = NumPrec, []uint{24, 53, 64, 200}[c.G(4)]
			}
			if f := k.num.Float(); f.IsInf() {
				k.num.Mode = NumParse
			}
		}
		nb := k.num
		c05LastBound = &nb
		k.inc = c.G(2) == 0
		switch c.G(16) {
		case 14:
			k.boundKnd = 1
		case 15:
			k.boundKnd = 2
		}
	case opRangeInc:
		k.num = NumDesc{Mode: NumParse, Text: numTexts[c.G(12)]}
		k.num2 = NumDesc{Mode: NumParse, Text: numTexts[c.G(12)]}
	case opLenLower, opLenUpper, opLen:
		k.n = c.G(6)
		if c.G(16) == 15 {
			k.n = -1
		}
	case opPrefix, opPrefixFull:
		k.s = c05Prefixes[c.G(len(c05Prefixes))]
	}
	return k
}

func c05Apply(b *cty.RefinementBuilder, k c05Call) (nb *cty.RefinementBuilder, panicked interface{}) {
	defer func() {
		if r := recover(); r != nil {
			panicked = r
		}
	}()
	bound := func(lower bool) cty.Value {
		switch k.boundKnd {
		case 1:
			return cty.UnknownVal(cty.Number)
		case 2:
			if lower {
				return cty.NegativeInfinity
			}
			return cty.PositiveInfinity
		}
		return k.num.Value()
	}
	switch k.op {
	case opNotNull:
		nb = b.NotNull()
	case opNull:
		nb = b.Null()
	case opLower:
		nb = b.NumberRangeLowerBound(bound(true), k.inc)
	case opUpper:
		nb = b.NumberRangeUpperBound(bound(false), k.inc)
	case opRangeInc:
		nb = b.NumberRangeInclusive(k.num.Value(), k.num2.Value())
	case opLenLower:
		nb = b.CollectionLengthLowerBound(k.n)
	case opLenUpper:
		nb = b.CollectionLengthUpperBound(k.n)
	case opLen:
		nb = b.CollectionLength(k.n)
	case opPrefix:
		nb = b.StringPrefix(k.s)
	case opPrefixFull:
		nb = b.StringPrefixFull(k.s)
	}
	return nb, nil
}

// c05LastBound: the number of the latest numeric bound of the run (see c05GenCall).
var c05LastBound *NumDesc

func simC05Histories(c *Ctx) {
	c05LastBound = nil
	c05OrderOpen = false
	c.Mute = c05MuteIfOrderOpen
	// ---- start value
	t := c05StartTypes[0]
	if c.G(3) != 0 {
		t = c05StartTypes[c.G(len(c05StartTypes))]
	}
	m := &c05Model{t: t, maxLen: math.MaxInt}
	var start cty.Value
	startKind := c.G(8)
	var marks []string
	if c.G(8) == 7 {
		marks = []string{markPool[c.G(len(markPool))]}
	}
	switch {
	case startKind == 5 && (t.K == KNumber || t.K == KString || t.K == KList || t.K == KSet || t.K == KMap || t.K == KBool):
		m.known = true
		switch t.K {
		case KNumber:
			nd := NumDesc{Mode: NumParse, Text: numTexts[c.G(12)]}
			m.knownNum = nd.Float()
			start = nd.Value()
		case KString:
			s := nfc(strPool[c.G(len(strPool))])
			m.knownStr = &s
			start = cty.StringVal(s)
		case KBool:
			m.knownOther = true
			start = cty.True
		default:
			m.knownLen = c.G(4)
			start = collOfLen(t, m.knownLen)
		}
	case startKind == 6:
		m.startNull = true
		start = cty.NullVal(t.Cty())
	case startKind == 7:
		m.dynamic = true
		start = cty.DynamicVal
	default:
		start = cty.UnknownVal(t.Cty())
	}
	for _, mk := range marks {
		start = start.Mark(mk)
	}
	c.Event("start %s of %s marks=%v", map[bool]string{true: "known", false: "unknown/null/dynamic"}[m.known], t, marks)
	c.AddShape(fmt.Sprintf("t=%s k=%d", t, startKind))

	// ---- candidates
	cands := c05Candidates(c, t)

	startFP := fp(start)
	if ustart, _ := start.Unmark(); m.known || m.startNull || m.dynamic {
		c05CheckFixedRange(c, m, ustart, cands, "before any refinement")
	} else {
		// an unknown value nobody refined yet: nothing is excluded, nothing is reported
		c05CheckSnapshot(c, m, start, start, cands, c05Call{op: opNone})
		c.Probe("c05.unrefined-range")
	}
	b := start.Refine()
	c.API("Value.Refine")
	type snap struct {
		v       cty.Value
		fp      string
		at      int
		model   c05Model
		lineage []c05Call // the accepted calls this value is the result of
		unsure  bool      // ... one of which the statement leaves open (accepted or rejected)
	}
	var snaps []snap
	var lineage []c05Call
	unsure := false
	nCalls := 1 + c.G(12)
	accepted := 0
	for i := 0; i < nCalls; i++ {
		doSnap := c.G(3) == 2 || i == nCalls-1
		k := c05GenCall(c, t, m.dynamic)
		if k.op == opPrefix {
			doSnap = true // the model adopts the recorded safe prefix from the range, after validating it
		}
		exp, update := m.expect(k)
		nb, pan := c05Apply(b, k)
		c.API("RefinementBuilder." + c05OpNames[k.op])
		c.Event("call %d: %s expect=%d panicked=%t", i, k, exp, pan != nil)
		if pan != nil {
			if exp == expAccept {
				c.Fail("C05", "rejected-consistent", "rejected:"+c05OpNames[k.op],
					"%s was rejected (panic: %v) although it is consistent with everything stated so far\nmodel before the call: %s", k, pan, m.describe())
			}
			c.Fired("contradiction.rejected")
			// builder state after a rejected call is unspecified: continue from the last snapshot if any
			if len(snaps) == 0 {
				break
			}
			last := snaps[len(snaps)-1].v
			if last.IsKnown() && !m.known && !m.startNull {
				break
			}
			b = last.Refine()
			*m = snaps[len(snaps)-1].model // the model goes back to what was stated when that snapshot was taken
			lineage = append([]c05Call(nil), snaps[len(snaps)-1].lineage...)
			unsure = snaps[len(snaps)-1].unsure
			continue
		}
		if nb != b {
			c.Fail("C05", "builder-identity", "builder-identity", "%s returned a different builder", k)
		}
		if exp == expReject {
			sig := c05OpNames[k.op]
			if (k.op == opLower || k.op == opUpper) && !k.inc {
				sig += ":exclusive"
			}
			if m.known {
				sig += ":known"
			}
			c.Fail("C05", "accepted-contradiction", "accepted:"+sig,
				"%s was accepted although it contradicts %s\nmodel before the call: %s", k, map[bool]string{true: "the known value " + safeGoString(start), false: "earlier constraints"}[m.known], m.describe())
		}
		update()
		accepted++
		lineage = append(lineage, k)
		if exp == expEither {
			unsure = true
			c.Probe("c05.ambiguous-accepted")
		}
		// earlier snapshots must not have moved
		for _, s := range snaps {
			if got := fp(s.v); got != s.fp {
				c.Fail("C05", "snapshot-mutated", "snapshot-mutated:"+c05OpNames[k.op],
					"the value returned by NewValue after call %d changed when %s was later called on the same builder\nbefore: %s\nafter:  %s", s.at, k, s.fp, got)
			}
		}
		if got := fp(start); got != startFP {
			c.Fail("C05", "start-mutated", "start-mutated", "refining changed the original value: %s -> %s", startFP, got)
		}
		if !doSnap {
			continue
		}
		v := b.NewValue()
		c.API("RefinementBuilder.NewValue")
		observe(c, v, "RefinementBuilder.NewValue")
		c.Event("snapshot after call %d: %s", i, fp(v))
		c05CheckSnapshot(c, m, start, v, cands, k)
		snaps = append(snaps, snap{v, fp(v), i, *m, append([]c05Call(nil), lineage...), unsure})
		if c.G(4) == 3 && !(v.IsKnown() && !m.known && !m.startNull && !m.dynamic) {
			// continue from the snapshot: exercises refining an already-refined value
			b = v.Refine()
			c.Fired("helper.fork.refine-from-snapshot")
		} else if len(snaps) > 0 && i < nCalls-1 {
			c.Fired("helper.fork.builder-reuse")
		}
		if v.IsKnown() && !m.known && !m.startNull && !m.dynamic {
			c.Probe("c05.collapsed-to-known")
			break
		}
	}
	if accepted > 0 {
		c.NonTrivial()
	}
	// the helpers say what the long form says: RefineWith with the same calls, and RefineNotNull where not-null is all
	// that was stated (for the type-unknown dynamic value: nothing at all)
	if len(snaps) > 0 {
		last := snaps[len(snaps)-1]
		if len(last.lineage) >= 1 && !last.unsure {
			var viaWith cty.Value
			if pan := catch(func() {
				viaWith = start.RefineWith(func(b *cty.RefinementBuilder) *cty.RefinementBuilder {
					for _, k := range last.lineage {
						b, _ = c05Apply(b, k)
					}
					return b
				})
			}); pan == nil {
				c.API("Value.RefineWith")
				observe(c, viaWith, "Value.RefineWith")
				if !viaWith.RawEquals(last.v) {
					c.Fail("C05", "range-depends-on-order", "helper-differs:RefineWith", "the constraints %v through Refine()...NewValue() give %s, through RefineWith they give %s", last.lineage, safeGoString(last.v), safeGoString(viaWith))
				}
			}
			onlyNotNull := true
			for _, k := range last.lineage {
				onlyNotNull = onlyNotNull && k.op == opNotNull
			}
			if onlyNotNull {
				var viaHelper cty.Value
				if pan := catch(func() { viaHelper = start.RefineNotNull() }); pan == nil {
					c.API("Value.RefineNotNull")
					observe(c, viaHelper, "Value.RefineNotNull")
					if !viaHelper.RawEquals(last.v) {
						c.Fail("C05", "range-depends-on-order", "helper-differs:RefineNotNull", "Refine().NotNull().NewValue() gives %s, RefineNotNull() gives %s", safeGoString(last.v), safeGoString(viaHelper))
					}
					if m.dynamic && fp(viaHelper) != fp(start) {
						c.Fail("C05", "dynamic-refined", "dynamic-refined:RefineNotNull", "RefineNotNull() of the type-unknown dynamic value returned %s", safeGoString(viaHelper))
					}
					c.Probe("c05.refine-not-null-helper")
				}
			}
		}
	}
	// the reported range is what the stated constraints imply - not what the order of stating them implies: the
	// constraints behind the last snapshot, stated again in a drawn order on a fresh builder, must all be accepted
	// (a consistent set has no inconsistent subset) and must describe the same value
	if len(snaps) > 0 {
		last := snaps[len(snaps)-1]
		if len(last.lineage) >= 2 && !last.unsure {
			perm := append([]c05Call(nil), last.lineage...)
			for i := len(perm) - 1; i > 0; i-- {
				j := c.G(i + 1)
				perm[i], perm[j] = perm[j], perm[i]
			}
			b2 := start.Refine()
			for _, k := range perm {
				if _, pan := c05Apply(b2, k); pan != nil {
					c.Fail("C05", "rejected-consistent", "rejected-in-other-order:"+c05OpNames[k.op],
						"%s was rejected (panic: %v) when the constraints %v, all accepted in that order, were stated in the order %v", k, pan, last.lineage, perm)
					return
				}
			}
			v2 := b2.NewValue()
			observe(c, v2, "RefinementBuilder.NewValue")
			if !v2.RawEquals(last.v) {
				c.Fail("C05", "range-depends-on-order", "range-depends-on-order", "the constraints %v give %s, the same constraints in the order %v give %s", last.lineage, safeGoString(last.v), perm, safeGoString(v2))
			}
			c.Probe("c05.permuted-replay")
		}
	}
}

func c05Candidates(c *Ctx, t *TDesc) []*c05Cand {
	var out []*c05Cand
	add := func(cd *c05Cand) { out = append(out, cd) }
	add(&c05Cand{v: cty.NullVal(t.Cty()), desc: "null", null: true, sameType: true})
	switch t.K {
	case KNumber:
		for i := 0; i < 7; i++ {
			nd := NumDesc{Mode: NumParse, Text: numTexts[c.G(12)]}
			if i >= 5 {
				nd = genNum(c, true)
				if nd.Mode == NumPosInf || nd.Mode == NumNegInf {
					// infinities are outside the oracle: an unbounded side is reported as an open
					// interval towards infinity, which is a convention, not a stated constraint
					nd.Mode = NumParse
				}
			}
			add(&c05Cand{v: nd.Value(), desc: nd.String(), num: nd.Float(), sameType: true})
		}
		add(&c05Cand{v: cty.StringVal("1"), desc: "string \"1\"", sameType: false})
	case KString:
		for i := 0; i < 7; i++ {
			s := strPool[c.G(len(strPool))]
			if i%2 == 1 {
				s = c05Prefixes[c.G(len(c05Prefixes))] + strPool[c.G(len(strPool))]
			}
			s = nfc(s)
			sc := s
			add(&c05Cand{v: cty.StringVal(s), desc: fmt.Sprintf("%+q", s), str: &sc, sameType: true})
		}
		add(&c05Cand{v: cty.NumberIntVal(1), desc: "number 1", sameType: false})
	case KList, KSet, KMap:
		for n := 0; n <= 6; n++ {
			add(&c05Cand{v: collOfLen(t, n), desc: fmt.Sprintf("%s of length %d", kindNames[t.K], n), length: n, sameType: true})
		}
		if t.K == KSet {
			// known sets that store unknown members: their length is only known to lie between the number of wholly
			// known members (at least one) and the number stored
			for q := 0; q < 3; q++ {
				k, u := c.G(4), 1+c.G(3)
				var vs []cty.Value
				if k > 0 {
					vs = collOfLen(t, k).AsValueSlice()
				}
				for i := 0; i < u; i++ {
					vs = append(vs, cty.UnknownVal(t.Elem.Cty()))
				}
				lo := k
				if lo < 1 {
					lo = 1
				}
				if k+u < 2 {
					continue // (a single stored member: the length is known)
				}
				add(&c05Cand{v: cty.SetVal(vs), desc: fmt.Sprintf("set of %d known and %d unknown members", k, u), length: k + u, lenLo: lo, partial: true, sameType: true})
			}
		}
		add(&c05Cand{v: cty.StringVal("x"), desc: "string", sameType: false})
	case KBool:
		add(&c05Cand{v: cty.True, desc: "true", sameType: true})
		add(&c05Cand{v: cty.StringVal("x"), desc: "string", sameType: false})
	default:
		add(&c05Cand{v: cty.StringVal("x"), desc: "string", sameType: false})
	}
	return out
}

func c05CheckSnapshot(c *Ctx, m *c05Model, start, v cty.Value, cands []*c05Cand, last c05Call) {
	uv, vmarks := v.Unmark()
	ustart, smarks := start.Unmark()
	if !v.Type().Equals(start.Type()) {
		c.Fail("C05", "type-changed", "type-changed", "refining changed the type from %#v to %#v", start.Type(), v.Type())
	}
	if !vmarks.Equal(smarks) {
		c.Fail("C05", "marks-changed", "marks-changed", "refining changed the marks from %#v to %#v", smarks, vmarks)
	}
	if m.dynamic {
		if uv != cty.DynamicVal {
			c.Fail("C05", "dynamic-refined", "dynamic-refined", "refining cty.DynamicVal returned %s", safeGoString(v))
		}
		c05CheckFixedRange(c, m, uv, cands, "after "+last.String())
		return
	}
	if m.known || m.startNull {
		if !uv.RawEquals(ustart) {
			c.Fail("C05", "known-changed", "known-changed", "refining the known value %s returned %s", safeGoString(start), safeGoString(v))
		}
		c05CheckFixedRange(c, m, uv, cands, "after "+last.String())
		return
	}
	// unknown start
	if uv.IsKnown() {
		ok := false
		why := ""
		switch {
		case uv.IsNull():
			ok = m.null == 1
			why = "a null result needs the constraints to admit only null"
		case m.null != 2:
			why = "null is still admitted"
		case m.t.K == KNumber:
			ok = m.hasLo && m.hasHi && m.loInc && m.hiInc && numCmp(m.lo, m.hi) == 0 && numCmp(uv.AsBigFloat(), m.lo) == 0
			why = "a known number needs equal inclusive bounds equal to it"
		case m.t.K == KList || m.t.K == KSet || m.t.K == KMap:
			if m.minLen == m.maxLen {
				n := m.minLen
				ln := uv.LengthInt()
				switch {
				case n == 0:
					ok = ln == 0
				case m.t.K == KList:
					ok = ln == n && !anyKnownElem(uv)
				case m.t.K == KSet && n == 1:
					ok = ln == 1 && !anyKnownElem(uv)
				}
			}
			why = "a known collection needs equal length bounds (and may know nothing about its elements)"
		}
		if !ok {
			c.Fail("C05", "collapsed-wrongly", "collapsed:"+kindNames[m.t.K],
				"after %s the result became the known value %s, but %s\nmodel: %s", last, safeGoString(v), why, m.describe())
		}
		return
	}
	r := uv.Range()
	c.API("Value.Range")
	if r.DefinitelyNotNull() != (m.null == 2) || r.CouldBeNull() != (m.null != 2) {
		c.Fail("C05", "range-nullness", "range:nullness", "after %s Range() reports DefinitelyNotNull=%t CouldBeNull=%t but the constraints imply %s",
			last, r.DefinitelyNotNull(), r.CouldBeNull(), m.describe())
	}
	switch m.t.K {
	case KNumber:
		lo, loInc := r.NumberLowerBound()
		hi, hiInc := r.NumberUpperBound()
		observe(c, lo, "ValueRange.NumberLowerBound")
		observe(c, hi, "ValueRange.NumberUpperBound")
		if m.hasLo {
			if !lo.IsKnown() || numCmp(lo.AsBigFloat(), m.lo) != 0 || loInc != m.loInc {
				c.Fail("C05", "range-bound", "range:lower"+tieSig(m),
					"after %s Range().NumberLowerBound() = (%s, %t) but the stated constraints imply (%s, %t)\nmodel: %s",
					last, safeGoString(lo), loInc, m.lo.Text('g', 30), m.loInc, m.describe())
			}
		} else if lo.IsKnown() && !lo.AsBigFloat().IsInf() {
			c.Fail("C05", "range-bound", "range:lower-spurious", "after %s Range() reports lower bound %s but none was stated", last, safeGoString(lo))
		}
		if m.hasHi {
			if !hi.IsKnown() || numCmp(hi.AsBigFloat(), m.hi) != 0 || hiInc != m.hiInc {
				c.Fail("C05", "range-bound", "range:upper"+tieSig(m),
					"after %s Range().NumberUpperBound() = (%s, %t) but the stated constraints imply (%s, %t)\nmodel: %s",
					last, safeGoString(hi), hiInc, m.hi.Text('g', 30), m.hiInc, m.describe())
			}
		} else if hi.IsKnown() && !hi.AsBigFloat().IsInf() {
			c.Fail("C05", "range-bound", "range:upper-spurious", "after %s Range() reports upper bound %s but none was stated", last, safeGoString(hi))
		}
	case KString:
		got := r.StringPrefix()
		if last.op == opPrefix {
			// validate, then adopt: the recorded prefix is the old one or a byte prefix of the normalized argument extending it
			p := nfc(last.s)
			switch {
			case got == m.prefix:
			case strings.HasPrefix(p, got) && strings.HasPrefix(got, m.prefix):
				m.prefix = got
			default:
				c.Fail("C05", "range-prefix", "range:prefix-safe",
					"after %s Range().StringPrefix() = %+q, which is neither the earlier prefix %+q nor a byte prefix of the normalized argument extending it", last, got, m.prefix)
			}
		} else if got != m.prefix {
			c.Fail("C05", "range-prefix", "range:prefix", "after %s Range().StringPrefix() = %+q but the stated constraints imply %+q", last, got, m.prefix)
		}
	case KList, KSet, KMap:
		if r.LengthLowerBound() != m.minLen || r.LengthUpperBound() != m.maxLen {
			c.Fail("C05", "range-length", "range:length", "after %s Range() reports length %d..%d but the stated constraints imply %d..%d",
				last, r.LengthLowerBound(), r.LengthUpperBound(), m.minLen, m.maxLen)
		}
	}
	for _, cd := range cands {
		inc := r.Includes(cd.v)
		c.API("ValueRange.Includes")
		adm := m.admits(cd)
		if inc.IsKnown() {
			if inc.False() && adm {
				c.Fail("C05", "excluded-admitted", "includes:false-on-admitted:"+kindNames[m.t.K],
					"after %s Range().Includes(%s) is False, but %s satisfies every constraint stated so far\nmodel: %s", last, cd.desc, cd.desc, m.describe())
			}
			if inc.True() && !adm {
				c.Fail("C05", "included-excluded", "includes:true-on-excluded:"+kindNames[m.t.K],
					"after %s Range().Includes(%s) is True, but the stated constraints exclude it\nmodel: %s", last, cd.desc, m.describe())
			}
		}
		if cd.excluded && !(inc.IsKnown() && inc.False()) {
			c.Fail("C05", "widened", "widened:"+kindNames[m.t.K],
				"%s was excluded by an earlier snapshot (Includes False) but after %s Includes no longer answers False: the range widened\nmodel: %s", cd.desc, last, m.describe())
		}
		if inc.IsKnown() && inc.False() {
			cd.excluded = true
		}
		if cd.sameType && !cd.null {
			eq := uv.Equals(cd.v)
			if eq.IsKnown() {
				if eq.True() {
					c.Fail("C05", "unknown-equals-true", "equals-true", "an unknown value Equals(%s) is True", cd.desc)
				}
				if eq.False() && adm {
					c.Fail("C05", "equals-false-admitted", "equals-false-on-admitted:"+kindNames[m.t.K],
						"after %s the refined unknown Equals(%s) is False although %s is admitted\nmodel: %s", last, cd.desc, cd.desc, m.describe())
				}
			}
		}
	}
	// another value of which as little is known: an unknown of the same type that may be null too and whose range lies
	// elsewhere. Both may turn out to be null, and any two nulls are equal - the two cannot be known to differ.
	if m.null == 0 && !m.known && !m.startNull && !m.dynamic && !uv.IsKnown() {
		var far cty.Value
		switch m.t.K {
		case KNumber:
			far = cty.UnknownVal(cty.Number).Refine().NumberRangeLowerBound(cty.NumberIntVal(1000000), true).NewValue()
		case KString:
			far = cty.UnknownVal(cty.String).Refine().StringPrefixFull("\uf8ff-elsewhere").NewValue()
		case KList, KSet, KMap:
			far = cty.UnknownVal(m.t.Cty()).Refine().CollectionLengthLowerBound(1000).NewValue()
		}
		if far != cty.NilVal {
			for _, eq := range []cty.Value{uv.Equals(far), far.Equals(uv)} {
				if eq.IsKnown() && eq.False() {
					c.Fail("C05", "equals-false-admitted", "equals-false:both-may-be-null", "after %s the refined unknown and %s may both turn out to be null, yet Equals is known to be False\nmodel: %s", last, safeGoString(far), m.describe())
				}
			}
			c.Probe("c05.two-nullable-unknowns")
		}
	}
}

// c05CheckFixedRange judges what Range() reports for a value whose admitted set is fixed by the value itself:
// a known value admits exactly itself, a null admits exactly null, cty.DynamicVal admits everything.
func c05CheckFixedRange(c *Ctx, m *c05Model, uv cty.Value, cands []*c05Cand, when string) {
	var r cty.ValueRange
	if pan := catch(func() { r = uv.Range() }); pan != nil {
		c.Fail("C05", "range-panic", "range:panic:Range", "%s: Range() of %s panicked: %v", when, safeGoString(uv), pan)
		return
	}
	c.API("Value.Range")
	acc := func(name string, f func()) bool {
		if pan := catch(f); pan != nil {
			c.Fail("C05", "range-panic", "range:panic:"+name, "%s: Range().%s of %s panicked: %v", when, name, safeGoString(uv), pan)
			return false
		}
		return true
	}
	var notNull, couldNull bool
	if !acc("DefinitelyNotNull", func() { notNull = r.DefinitelyNotNull() }) || !acc("CouldBeNull", func() { couldNull = r.CouldBeNull() }) {
		return
	}
	if !r.TypeConstraint().Equals(uv.Type()) {
		c.Fail("C05", "range-type", "range:type", "%s: Range().TypeConstraint() of %s is %#v", when, safeGoString(uv), r.TypeConstraint())
	}
	switch {
	case m.dynamic:
		c.Probe("c05.fixed-range:dynamic")
		if notNull || !couldNull {
			c.Fail("C05", "range-nullness", "range:nullness:dynamic", "%s: the range of cty.DynamicVal reports DefinitelyNotNull=%t CouldBeNull=%t", when, notNull, couldNull)
		}
		// it is not even known to be a number, a string or a collection: nothing may be reported
		var lo, hi cty.Value
		var pfx string
		var ll, lu int
		if acc("NumberLowerBound", func() { lo, _ = r.NumberLowerBound() }) && lo.IsKnown() && !lo.AsBigFloat().IsInf() {
			c.Fail("C05", "range-bound", "range:lower-spurious:dynamic", "%s: the range of cty.DynamicVal reports the lower bound %s", when, safeGoString(lo))
		}
		if acc("NumberUpperBound", func() { hi, _ = r.NumberUpperBound() }) && hi.IsKnown() && !hi.AsBigFloat().IsInf() {
			c.Fail("C05", "range-bound", "range:upper-spurious:dynamic", "%s: the range of cty.DynamicVal reports the upper bound %s", when, safeGoString(hi))
		}
		if acc("StringPrefix", func() { pfx = r.StringPrefix() }) && pfx != "" {
			c.Fail("C05", "range-prefix", "range:prefix:dynamic", "%s: the range of cty.DynamicVal reports the prefix %+q", when, pfx)
		}
		if acc("LengthLowerBound", func() { ll = r.LengthLowerBound() }) && acc("LengthUpperBound", func() { lu = r.LengthUpperBound() }) && (ll != 0 || lu != math.MaxInt) {
			c.Fail("C05", "range-length", "range:length:dynamic", "%s: the range of cty.DynamicVal reports length %d..%d", when, ll, lu)
		}
	case m.startNull:
		c.Probe("c05.fixed-range:null")
		if notNull || !couldNull {
			c.Fail("C05", "range-nullness", "range:nullness:null", "%s: the range of a null value reports DefinitelyNotNull=%t CouldBeNull=%t", when, notNull, couldNull)
		}
	default:
		c.Probe("c05.fixed-range:known")
		if !notNull || couldNull {
			c.Fail("C05", "range-nullness", "range:nullness:known", "%s: the range of the known value %s reports DefinitelyNotNull=%t CouldBeNull=%t", when, safeGoString(uv), notNull, couldNull)
		}
		switch {
		case m.knownNum != nil:
			var lo, hi cty.Value
			var loInc, hiInc bool
			if acc("NumberLowerBound", func() { lo, loInc = r.NumberLowerBound() }) && acc("NumberUpperBound", func() { hi, hiInc = r.NumberUpperBound() }) {
				// the admitted set is {n}: n itself must lie inside what is reported, and what is reported is exactly [n, n]
				if !lo.IsKnown() || !hi.IsKnown() || numCmp(lo.AsBigFloat(), m.knownNum) != 0 || numCmp(hi.AsBigFloat(), m.knownNum) != 0 || !loInc || !hiInc {
					c.Fail("C05", "range-bound", "range:known-number", "%s: the range of the known number %s reports (%s, %t)..(%s, %t); it admits exactly that number",
						when, safeGoString(uv), safeGoString(lo), loInc, safeGoString(hi), hiInc)
				}
			}
		case m.knownStr != nil:
			var pfx string
			if acc("StringPrefix", func() { pfx = r.StringPrefix() }) && pfx != *m.knownStr {
				sig := "range:known-string"
				if !strings.HasPrefix(*m.knownStr, pfx) {
					sig += ":not-a-prefix"
				}
				c.Fail("C05", "range-prefix", sig, "%s: the range of the known string %+q reports the prefix %+q; it admits exactly that string", when, *m.knownStr, pfx)
			}
		case m.t.K == KList || m.t.K == KSet || m.t.K == KMap:
			var ll, lu int
			if acc("LengthLowerBound", func() { ll = r.LengthLowerBound() }) && acc("LengthUpperBound", func() { lu = r.LengthUpperBound() }) && (ll != m.knownLen || lu != m.knownLen) {
				c.Fail("C05", "range-length", "range:known-length", "%s: the range of a known %s of length %d reports length %d..%d", when, kindNames[m.t.K], m.knownLen, ll, lu)
			}
		}
	}
	for _, cd := range cands {
		var inc cty.Value
		if !acc("Includes", func() { inc = r.Includes(cd.v) }) {
			continue
		}
		c.API("ValueRange.Includes")
		if !inc.IsKnown() {
			continue
		}
		adm := m.dynamic || m.admits(cd)
		kind := "known"
		if m.dynamic {
			kind = "dynamic"
		} else if m.startNull {
			kind = "null"
		}
		if inc.False() && adm {
			c.Fail("C05", "excluded-admitted", "includes:false-on-admitted:"+kind, "%s: Range().Includes(%s) of %s is False", when, cd.desc, safeGoString(uv))
		}
		if inc.True() && !adm {
			c.Fail("C05", "included-excluded", "includes:true-on-excluded:"+kind, "%s: Range().Includes(%s) of %s is True", when, cd.desc, safeGoString(uv))
		}
	}
}

func tieSig(m *c05Model) string {
	if m.hasLo && m.hasHi && numCmp(m.lo, m.hi) == 0 {
		return ":tie"
	}
	return ""
}

func anyKnownElem(v cty.Value) bool {
	for it := v.ElementIterator(); it.Next(); {
		_, ev := it.Element()
		if ev.IsKnown() {
			return true
		}
	}
	return false
}

// ---------------------------------------------------------------------------
// cut points

var c05Units = []string{
	"a", "e", "o", "A", "z", "1",
	"\u0301", "\u0308", "\u0323", "\u030a", "\u0338",
	"\u1100", "\u1161", "\u11a8", "\uac00", "\uac01",
	"\U0001F44D", "\U0001F3FD", "\u200d", "\U0001F468", "\U0001F469", "\ufe0f",
	"\U0001F1E6", "\U0001F1FA", "\U0001F1F8",
	"\r", "\n", "-", ",", ":", "\"", " ", "=", "<", "/",
	"\u00e9", "\u00c5", "\u212b", "\u093f", "\u0915", "\u0600", "\u0f73", "\u0344",
}

func genUnits(c *Ctx, lo, hi int) string {
	n := c.Range(0, lo, hi) // stream Gen == 0
	var b strings.Builder
	for i := 0; i < n; i++ {
		b.WriteString(c05Units[c.G(len(c05Units))])
	}
	return b.String()
}

func simC05Cuts(c *Ctx) {
	s := genUnits(c, 1, 12)
	conts := []string{"", c05Units[6+c.G(10)], genUnits(c, 1, 4), genUnits(c, 1, 3)}
	c.Event("string %+q", s)
	c.AddShape(fmt.Sprintf("%+q", s))
	cuts := 0
	for cut := 0; cut <= len(s); cut++ {
		if cut < len(s) && !utf8.RuneStart(s[cut]) {
			continue
		}
		cuts++
		p, rest := s[:cut], s[cut:]
		q := ctystrings.SafeKnownPrefix(p)
		c.API("ctystrings.SafeKnownPrefix")
		c.Fired("cut.prefix")
		all := append([]string{rest}, conts...)
		for _, t := range all {
			full := ctystrings.Normalize(p + t)
			if !strings.HasPrefix(full, q) {
				c.Fail("C05", "unsafe-prefix", "unsafe-prefix:"+cutSig(p, t),
					"SafeKnownPrefix(%+q) = %+q is not a byte prefix of Normalize(%+q) = %+q (cut at byte %d of %+q, continuation %+q)",
					p, q, p+t, full, cut, s, t)
			}
		}
		if !utf8.ValidString(q) {
			c.Fail("C05", "unsafe-prefix", "unsafe-prefix:invalid-utf8", "SafeKnownPrefix(%+q) = %+q is not valid UTF-8", p, q)
		}
		// the same through the builder and the range
		v := cty.UnknownVal(cty.String).Refine().StringPrefix(p).NewValue()
		observe(c, v, "RefinementBuilder.NewValue")
		rp := v.Range().StringPrefix()
		c.Event("cut %d: safe=%+q range=%+q", cut, q, rp)
		for _, t := range all {
			full := ctystrings.Normalize(p + t)
			if !strings.HasPrefix(full, rp) {
				c.Fail("C05", "unsafe-prefix", "unsafe-prefix-range:"+cutSig(p, t),
					"Refine().StringPrefix(%+q) recorded %+q, not a byte prefix of the normalized %+q", p, rp, full)
			}
			if inc := v.Range().Includes(cty.StringVal(p + t)); inc.IsKnown() && inc.False() {
				c.Fail("C05", "unsafe-prefix", "unsafe-prefix-includes:"+cutSig(p, t),
					"a string refined with StringPrefix(%+q) excludes its own extension %+q", p, p+t)
			}
		}
	}
	if cuts > 1 {
		c.NonTrivial()
	}
}

func cutSig(p, t string) string {
	lr, _ := utf8.DecodeLastRuneInString(p)
	fr, _ := utf8.DecodeRuneInString(t)
	return fmt.Sprintf("U+%04X|U+%04X", lr, fr)
}

// canonFloat maps a number to the value of its shortest decimal rendering. go-cty documents
// (CHANGELOG 1.9.0) that two numbers are equal when their decimal renderings are equal, so the
// model works on renderings: float64(0.1) and the 512-bit parse of "0.1" are one number.
func canonFloat(f *big.Float) *big.Float {
	if f.IsInf() || f.IsInt() {
		return f // integers are compared by their exact value
	}
	g, _, err := big.ParseFloat(f.Text('f', -1), 10, 2048, big.ToNearestEven)
	if err != nil {
		return f
	}
	return g
}

func canonNum(d NumDesc) *big.Float { return canonFloat(d.Float()) }

// ---------------------------------------------------------------------------
// known sets that store unknown members: a known value whose length is not known

// simC05KnownSets: a known set with k wholly-known distinct members and u >= 1 unknown ones may
// turn out to have any length from max(1, k) (every unknown coalesces) to k+u; its reported range
// and any refinement of it must never exclude a length or a concrete set it admits.
func simC05KnownSets(c *Ctx) {
	mode := c.G(3) // 0 strings, 1 numbers, 2 tuples (whose members may be known in part)
	k := c.G(4)
	u := 1 + c.G(3)
	var members []cty.Value
	var known []cty.Value
	ety := cty.String
	switch mode {
	case 1:
		ety = cty.Number
	case 2:
		ety = cty.Tuple([]cty.Type{cty.String, cty.Number})
	}
	mk := func(name string, n int64) cty.Value {
		switch mode {
		case 1:
			return cty.NumberIntVal(n)
		case 2:
			return cty.TupleVal([]cty.Value{cty.StringVal(name), cty.NumberIntVal(n)})
		}
		return cty.StringVal(name)
	}
	for i := 0; i < k; i++ {
		m := mk(string(rune('a'+i)), int64(10+i))
		known = append(known, m)
		members = append(members, m)
	}
	for i := 0; i < u; i++ {
		un := cty.UnknownVal(ety)
		switch c.G(3) {
		case 1:
			un = un.RefineNotNull()
		case 2:
			switch mode {
			case 1:
				un = un.Refine().NumberRangeLowerBound(cty.NumberIntVal(int64(i)), true).NewValue()
			case 0:
				un = un.Refine().StringPrefixFull("p").NewValue()
			default:
				// known in part: it may still turn out to equal a wholly known member
				un = cty.TupleVal([]cty.Value{cty.StringVal(string(rune('a' + i))), cty.UnknownVal(cty.Number)})
				if c.G(2) == 1 {
					un = cty.TupleVal([]cty.Value{cty.UnknownVal(cty.String), cty.NumberIntVal(int64(10 + i))})
				}
			}
		}
		members = append(members, un)
	}
	for i := len(members) - 1; i > 0; i-- {
		j := c.G(i + 1)
		members[i], members[j] = members[j], members[i]
	}
	s := cty.SetVal(members)
	observe(c, s, "SetVal")
	n := s.LengthInt() // stored members (indistinguishable unknowns are all kept)
	minPossible := k
	if minPossible < 1 {
		minPossible = 1
	}
	c.Event("known set of %d known and %d unknown members (%d stored): %s", k, u, n, safeGoString(s))
	c.AddShape(fmt.Sprintf("knownset k=%d u=%d mode=%d", k, u, mode))
	// concrete sets the value may turn out to be: the known members plus 0..u others
	var cands []cty.Value
	for extra := 0; k+extra <= n; extra++ {
		if k+extra == 0 {
			continue
		}
		vals := append([]cty.Value(nil), known...)
		for e := 0; e < extra; e++ {
			vals = append(vals, mk(fmt.Sprintf("px%d", e), int64(100+e)))
		}
		cands = append(cands, cty.SetVal(vals))
	}
	check := func(v cty.Value, what string, lo, hi int) {
		r := v.Range()
		c.API("Value.Range")
		if r.CouldBeNull() || !r.DefinitelyNotNull() {
			c.Fail("C05", "range-nullness", "range:nullness:known-set", "%s: the range of a known set admits null", what)
		}
		if got := r.LengthLowerBound(); got > lo {
			c.Fail("C05", "range-length", "range:length:known-set-lower", "%s: Range().LengthLowerBound() = %d, but the set may turn out to have only %d members (its unknown members may equal others)\nvalue: %s", what, got, lo, safeGoString(v))
		}
		if got := r.LengthUpperBound(); got < hi {
			c.Fail("C05", "range-length", "range:length:known-set-upper", "%s: Range().LengthUpperBound() = %d, but the set may turn out to have %d members\nvalue: %s", what, got, hi, safeGoString(v))
		}
		for _, cd := range cands {
			l := cd.LengthInt()
			if l < lo || l > hi {
				continue
			}
			if inc := r.Includes(cd); inc.IsKnown() && inc.False() {
				c.Fail("C05", "excluded-admitted", "includes:false-on-admitted:known-set", "%s: Range().Includes(%s) is False, but the set may turn out to be exactly that\nvalue: %s", what, safeGoString(cd), safeGoString(v))
			}
		}
	}
	check(s, "a known set storing unknown members", minPossible, n)
	if n < 2 {
		return
	}
	// refinements consistent with what the set admits must be accepted and must not exclude anything admitted
	lo, hi := minPossible, n
	nCalls := 1 + c.G(4)
	for i := 0; i < nCalls; i++ {
		var name string
		var pan interface{}
		var res cty.Value
		x := c.G(n + 2)
		kind := c.G(3)
		func() {
			defer func() { pan = recover() }()
			b := s.Refine()
			switch kind {
			case 0:
				name = fmt.Sprintf("CollectionLengthUpperBound(%d)", x)
				b = b.CollectionLengthUpperBound(x)
			case 1:
				name = fmt.Sprintf("CollectionLengthLowerBound(%d)", x)
				b = b.CollectionLengthLowerBound(x)
			default:
				name = "NotNull"
				b = b.NotNull()
			}
			res = b.NewValue()
		}()
		c.API("RefinementBuilder (known set)")
		consistent := kind == 2 || (kind == 0 && x >= minPossible) || (kind == 1 && x <= n)
		c.Event("call %s consistent=%t panicked=%t", name, consistent, pan != nil)
		if pan != nil {
			if consistent {
				c.Fail("C05", "rejected-consistent", "rejected:known-set", "%s on a known set that may have %d..%d members was rejected (panic: %v)\nvalue: %s", name, minPossible, n, pan, safeGoString(s))
			}
			c.Fired("contradiction.rejected")
			continue
		}
		if !consistent {
			// a bound no length the set may turn out to have satisfies contradicts the known value
			sig := "accepted:known-set:lower-above-stored"
			if kind == 0 {
				sig = "accepted:known-set:upper-below-known-members"
				if x < 1 {
					sig = "accepted:known-set:upper-below-one"
				}
			}
			c.Fail("C05", "accepted-contradiction", sig, "%s on a known set that may only have %d..%d members (%d wholly known distinct members, %d stored) was accepted\nvalue: %s", name, minPossible, n, k, n, safeGoString(s))
			continue
		}
		if !res.RawEquals(s) {
			c.Fail("C05", "known-changed", "known-changed:known-set", "refining the known set %s with %s returned %s", safeGoString(s), name, safeGoString(res))
		}
		if consistent {
			l2, h2 := lo, hi
			if kind == 0 && x < h2 {
				h2 = x
			}
			if kind == 1 && x > l2 {
				l2 = x
			}
			check(res, "after "+name, l2, h2)
		}
	}
	c.NonTrivial()
}

// numCmp is go-cty's order on numbers as documented: two numbers with the same exact integer
// value or the same shortest decimal rendering are equal (CHANGELOG 1.9.0) and equal numbers are
// never ordered; unequal numbers are ordered by value. "By value" is open in one case: a number held at
// low precision may lie on the other side of a third number than its own shortest rendering does
// (0.3 held in 24 bits is 0.3000000119..., which is above 0.30000000000000004, while its rendering
// "0.3" is below it), and whether the binary values or the renderings that equality compares decide is
// not something the property states (go-cty went by the binary values, and goes by the renderings since
// the repair of the trichotomy defect). The model notes when it meets such a pair: from then on the run's
// order-dependent judgments are not raised (c05MuteIfOrderOpen).
func numCmp(a, b *big.Float) int {
	if floatKey(a) == floatKey(b) {
		return 0
	}
	byValue := a.Cmp(b)
	if !a.IsInf() && !b.IsInf() && a.Prec() != b.Prec() {
		if byText := canonFloat(a).Cmp(canonFloat(b)); byText != byValue {
			c05OrderOpen = true
			return byText
		}
	}
	return byValue
}

// c05OrderOpen: the model compared two unequal numbers whose binary values and shortest renderings are
// ordered differently (reset at the start of every run).
var c05OrderOpen bool

var c05OrderDependent = map[string]bool{"accepted-contradiction": true, "collapsed-wrongly": true, "equals-false-admitted": true,
	"excluded-admitted": true, "included-excluded": true, "range-bound": true, "rejected-consistent": true, "widened": true,
	"range-depends-on-order": true, "unknown-equals-true": true}

func c05MuteIfOrderOpen(property, class string) bool {
	return property == "C05" && c05OrderOpen && c05OrderDependent[class]
}

func floatKey(f *big.Float) string {
	if f.IsInf() {
		if f.Signbit() {
			return "-Inf"
		}
		return "+Inf"
	}
	if f.IsInt() {
		i, _ := f.Int(nil)
		return i.String()
	}
	return f.Text('f', -1)
}
