package main

import "github.com/zclconf/go-cty/cty"

// Families of distinct, ordered, wholly known values whose set hashes (Value.Hash, a CRC-32) really collide,
// found by brute force over 72 million candidates each (tools note in DESIGN.md §11). They are workload, not
// oracle: the generators use them so that one hash bucket holds several members that the set order CAN tell apart
// (unknowns and capsules, the other way to share a bucket, compare as unordered). Verified at start-up through the
// public Hash method: a family that no longer collides (the library changed its hashing) is dropped and counted.

var collidingStrings = [][]string{
	{"qkiiyilxn", "ousihrcoz", "llmtorvng", "mmvqemico"},
	{"gakfxokbd", "hvzrmaiku", "pximtfyur", "dajsmwyhx"},
	{"bgakshlgp", "ylczhhsnj", "uiyplndst", "hjfpcoasy"},
	{"jczszoifm", "zpltkkopr", "wjxxzsxnh", "rrgzgebis"},
	{"cojjovudw", "enttquknx", "yzrzkxyie", "qlbausoto"},
	{"fnbebtmel", "nqbltdoyq", "woaxbffst", "mltqhgulg"},
	{"njklfnprs", "iaxzsjgvy", "qgpqlsabl", "gsvwqtthm"},
	{"pyjsamyyl", "aazzuktjs", "wdhsicvuq", "xvzaikycn"},
	{"ffukkhsov", "eijsdkxrl", "bobyugbue", "xkataznum"},
	{"hmtuqmfsy", "lzeyrzxei", "wbvvvfdmu", "yvvdfxzep"},
}

var collidingInts = [][]int64{
	{3529098843728, 7540521843111, 7285628411978, 15648492020646},
	{6905341502533, 17174658740721, 4805241724770, 9281460219238},
	{7189297720585, 11482332823095, 7598006743003, 15835221896900},
	{1756412434679, 6368902684667, 7316340013906, 420917305246},
	{9542971155128, 4433152636515, 8735984337930, 345209871799},
	{8294431358668, 16234767847866, 2764555192227, 9585046930676},
	{1938587235588, 11505984287670, 783098109176, 12521001882941},
	{7110053584123, 12130724596271, 9480864789143, 12819346543863},
	{9963507552876, 7077721208437, 14665643621810, 5879427897040},
	{2341019156059, 5198862990049, 3297511808712, 11162747001957},
}

// staleFamilies counts families dropped at start-up because their members no longer share a hash.
var staleFamilies int

func init() {
	var ks [][]string
	for _, f := range collidingStrings {
		ok := true
		for _, x := range f[1:] {
			ok = ok && cty.StringVal(x).Hash() == cty.StringVal(f[0]).Hash()
		}
		if ok {
			ks = append(ks, f)
		} else {
			staleFamilies++
		}
	}
	collidingStrings = ks
	var ki [][]int64
	for _, f := range collidingInts {
		ok := true
		for _, x := range f[1:] {
			ok = ok && cty.NumberIntVal(x).Hash() == cty.NumberIntVal(f[0]).Hash()
		}
		if ok {
			ki = append(ki, f)
		} else {
			staleFamilies++
		}
	}
	collidingInts = ki
}

func familyStrings(fam int) []string {
	if fam <= 0 || len(collidingStrings) == 0 {
		return nil
	}
	return collidingStrings[(fam-1)%len(collidingStrings)]
}

func familyInts(fam int) []int64 {
	if fam <= 0 || len(collidingInts) == 0 {
		return nil
	}
	return collidingInts[(fam-1)%len(collidingInts)]
}

// Injection twins: two distinct structures whose set hashes collide because one of them carries, inside a key or a
// string, the text of the other's separators (a hash or an index computed over an unescaped rendering cannot tell
// {"a":1,"b":2} from a map whose single key spells `a":1;"b`). Nothing is assumed about the rendering: at start-up
// a small grammar of such keys is tried against the public Hash method of the library under test, and whatever
// collides becomes workload (on a library that escapes properly nothing does, and nothing is added).
type injectionTwin struct {
	list bool        // list(string) members, else map(number) members
	a, b [][2]string // members as (key, value-text) pairs; for lists the key is unused
}

var injectionTwins []injectionTwin

func init() {
	quotes := []string{`"`, `'`, ""}
	kv := []string{":", "=", ": ", "=>", " "}
	seps := []string{";", ",", ", ", "; ", " ", ";;", ",,"}
	m1 := cty.MapVal(map[string]cty.Value{"a": cty.NumberIntVal(1), "b": cty.NumberIntVal(2)})
	l1 := cty.ListVal([]cty.Value{cty.StringVal("a"), cty.StringVal("b")})
	for _, q := range quotes {
		for _, sp := range seps {
			k := "a" + q + sp + q + "b"
			if len(injectionTwins) < 8 && cty.ListVal([]cty.Value{cty.StringVal(k)}).Hash() == l1.Hash() {
				injectionTwins = append(injectionTwins, injectionTwin{list: true, a: [][2]string{{"", "a"}, {"", "b"}}, b: [][2]string{{"", k}}})
			}
			for _, c1 := range kv {
				for _, r := range []string{"1", "1.0", "+1"} {
					k := "a" + q + c1 + r + sp + q + "b"
					if len(injectionTwins) < 8 && cty.MapVal(map[string]cty.Value{k: cty.NumberIntVal(2)}).Hash() == m1.Hash() {
						injectionTwins = append(injectionTwins, injectionTwin{a: [][2]string{{"a", "1"}, {"b", "2"}}, b: [][2]string{{k, "2"}}})
					}
				}
			}
		}
	}
}

// injectionMembers returns the two members of a twin as descriptions of the element type t (list(string) or
// map(number)), or nil when no twin exists for it.
func injectionMembers(t *TDesc, pick int) []*VDesc {
	var fit []injectionTwin
	for _, tw := range injectionTwins {
		if (tw.list && t.K == KList && t.Elem.K == KString) || (!tw.list && t.K == KMap && t.Elem.K == KNumber) {
			fit = append(fit, tw)
		}
	}
	if len(fit) == 0 {
		return nil
	}
	tw := fit[pick%len(fit)]
	mk := func(pairs [][2]string) *VDesc {
		v := &VDesc{T: t}
		for _, p := range pairs {
			e := &VDesc{T: t.Elem}
			if t.Elem.K == KString {
				e.S = p[1]
			} else {
				e.Num = NumDesc{Mode: NumParse, Text: p[1]}
				v.Keys = append(v.Keys, p[0])
			}
			v.Elems = append(v.Elems, e)
		}
		return v
	}
	return []*VDesc{mk(tw.a), mk(tw.b)}
}
