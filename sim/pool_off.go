//go:build !verifpool

package main

// Without the standard-library overlay sync.Pool is what it is.
const poolSwitchable = false

func setPooling(on bool) {}
