#!/bin/sh
# Builds the driver and the instrumenter from files on disk only (offline).
set -e
cd "$(dirname "$0")"
export GOFLAGS=-mod=mod GOPROXY=off GOSUMDB=off GOTOOLCHAIN=local CGO_ENABLED=1
mkdir -p bin evidence replays
go build -o bin/instrument ./cmd/instrument
go build -o bin/verif ./cmd/verif
echo "setup ok"
