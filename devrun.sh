#!/bin/sh
# developer helper: run a property in the dev scratch and summarise
S=${S:-/tmp/vscratch.dev}
P=$1; N=${2:-2000}; SEED=${3:-1}; [ $# -gt 0 ] && shift; [ $# -gt 0 ] && shift; [ $# -gt 0 ] && shift
rm -f $S/out.jsonl
$S/simworker run -prop $P -seed $SEED -n $N -out $S/out.jsonl -replays $S/rp "$@"
echo "exit=$? done=$(grep -c '"t":"done"' $S/out.jsonl)"
grep '"t":"viol"' $S/out.jsonl | python3 -c "
import sys,json
for l in sys.stdin:
    d=json.loads(l)['viol']
    print(d['property'],d['class'],d['signature'],'|',d['detail'][:700].replace('\n',' // '),'| tape',d['orig_tape_len'],'->',d['min_tape_len'])
" | sort | uniq -c | sort -rn | head -${TOP:-20}
grep nondet $S/out.jsonl | head -3
grep '"t":"stats"' $S/out.jsonl | python3 -c "
import sys,json
for l in sys.stdin:
    d=json.loads(l); s=d['stats']
    print('runs',s['runs'],'nontrivial',s['nontrivial_runs'],'distinct',d.get('distinct_nontrivial'),'wall',round(d['wall_s'],2))
    print('faults',s['fault_fired']); print('probes',s['probes'])
"
