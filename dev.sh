#!/bin/sh
# developer helper (not used by registered checks): rebuild an instrumented scratch copy and the worker
set -e
export GOFLAGS=-mod=mod GOPROXY=off GOSUMDB=off GOTOOLCHAIN=local
S=${S:-/tmp/vscratch.dev}
rm -rf $S && mkdir -p $S/rp && rsync -a --exclude .git ${R:-/repo}/ $S/repo/ && mkdir -p $S/repo/cty/verifseam && cp /verif/seam/seam.go $S/repo/cty/verifseam/ && sed -i 's/^go 1.18/go 1.20/' $S/repo/go.mod && /verif/bin/instrument $S/repo >/dev/null
cd /verif && sed "s#=> /repo#=> $S/repo#" go.mod > $S/verif.mod && cp go.sum $S/verif.sum && go build -modfile=$S/verif.mod -tags verif $RACE -o $S/simworker ./sim && echo BUILT $S
