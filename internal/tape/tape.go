// Package tape implements the choice tapes of DESIGN.md §3.5: every decision a
// simulated run makes is a bounded draw from one of four named streams derived
// from one sub-seed. A run either records its draws or replays a tape; an
// exhausted tape yields zeros, and every generator is written so that zero is
// the simplest choice, which is what makes tape shrinking work.
package tape

import (
	"encoding/json"
	"fmt"
	"os"
)

type Stream int

const (
	Gen Stream = iota
	Fault
	MapOrder
	Sched
	NumStreams
)

var StreamNames = [NumStreams]string{"gen", "fault", "maporder", "sched"}

// Tape is the recorded or to-be-replayed sequence of draws, per stream.
type Tape struct {
	S [NumStreams][]uint64 `json:"streams"`
}

func (t *Tape) Clone() *Tape {
	c := &Tape{}
	for i := range t.S {
		c.S[i] = append([]uint64(nil), t.S[i]...)
	}
	return c
}

func (t *Tape) Len() int {
	n := 0
	for i := range t.S {
		n += len(t.S[i])
	}
	return n
}

// SplitMix64 is the seed-derivation function: sub-seed i of a run is
// SplitMix64(seed ^ hash(property) + i*golden).
func SplitMix64(x uint64) uint64 {
	x += 0x9E3779B97F4A7C15
	z := x
	z = (z ^ (z >> 30)) * 0xBF58476D1CE4E5B9
	z = (z ^ (z >> 27)) * 0x94D049BB133111EB
	return z ^ (z >> 31)
}

func SubSeed(seed uint64, property string, i uint64) uint64 {
	h := uint64(1469598103934665603)
	for _, c := range []byte(property) {
		h ^= uint64(c)
		h *= 1099511628211
	}
	return SplitMix64(SplitMix64(seed^h) + i*0x9E3779B97F4A7C15)
}

// Source is what generators draw from.
type Source struct {
	replay  bool
	rng     [NumStreams]uint64
	pos     [NumStreams]int
	tape    Tape
	Drawn   [NumStreams]int // number of draws made per stream (both modes)
	Starved [NumStreams]int // draws answered with zero because the tape ran out
}

func NewRecorder(subseed uint64) *Source {
	s := &Source{}
	for i := range s.rng {
		s.rng[i] = SplitMix64(subseed+uint64(i)*0x632BE59BD9B4E019) | 1
	}
	return s
}

func NewReplayer(t *Tape) *Source {
	return &Source{replay: true, tape: *t.Clone()}
}

// Recorded returns the tape of all draws made so far.
func (s *Source) Recorded() *Tape {
	if s.replay {
		// what was actually consumed, zero-extended
		t := &Tape{}
		for i := range t.S {
			n := s.pos[i]
			for j := 0; j < n; j++ {
				if j < len(s.tape.S[i]) {
					t.S[i] = append(t.S[i], s.tape.S[i][j])
				} else {
					t.S[i] = append(t.S[i], 0)
				}
			}
		}
		return t
	}
	return s.tape.Clone()
}

// Draw returns a value in [0, bound). bound must be >= 1.
func (s *Source) Draw(st Stream, bound uint64) uint64 {
	if bound == 0 {
		panic("tape: zero bound")
	}
	s.Drawn[st]++
	if s.replay {
		i := s.pos[st]
		s.pos[st]++
		if i < len(s.tape.S[st]) {
			return s.tape.S[st][i] % bound
		}
		s.Starved[st]++
		return 0
	}
	x := s.rng[st]
	x ^= x << 13
	x ^= x >> 7
	x ^= x << 17
	s.rng[st] = x
	v := (x * 0x2545F4914F6CDD1D) >> 11 % bound
	s.tape.S[st] = append(s.tape.S[st], v)
	return v
}

// ---------------------------------------------------------------------------
// shrinking

// Shrink minimises a failing tape. test must report whether the candidate still
// fails in the same way; it is called at most maxTests times. The result is the
// smallest tape found (never larger than the input in any stream).
func Shrink(t *Tape, test func(*Tape) bool, maxTests int) (*Tape, int) {
	best := t.Clone()
	tests := 0
	try := func(c *Tape) bool {
		if tests >= maxTests {
			return false
		}
		tests++
		if test(c) {
			best = c
			return true
		}
		return false
	}
	improved := true
	for round := 0; improved && round < 6 && tests < maxTests; round++ {
		improved = false
		for st := Stream(0); st < NumStreams; st++ {
			// 0. drop the whole stream
			if len(best.S[st]) > 0 {
				c := best.Clone()
				c.S[st] = nil
				if try(c) {
					improved = true
					continue
				}
			}
			// 1. truncate the tail by halves
			for cut := len(best.S[st]) / 2; cut >= 1 && tests < maxTests; cut /= 2 {
				for len(best.S[st]) >= cut {
					c := best.Clone()
					c.S[st] = c.S[st][:len(c.S[st])-cut]
					if !try(c) {
						break
					}
					improved = true
				}
			}
			// 2. delete blocks
			for size := 16; size >= 1 && tests < maxTests; size /= 2 {
				for i := 0; i+size <= len(best.S[st]) && tests < maxTests; {
					c := best.Clone()
					c.S[st] = append(c.S[st][:i:i], c.S[st][i+size:]...)
					if try(c) {
						improved = true
					} else {
						i += size
					}
				}
			}
			// 3. zero blocks, then single values; then halve
			for size := 8; size >= 1 && tests < maxTests; size /= 2 {
				for i := 0; i+size <= len(best.S[st]) && tests < maxTests; i += size {
					allZero := true
					for j := i; j < i+size; j++ {
						if best.S[st][j] != 0 {
							allZero = false
						}
					}
					if allZero {
						continue
					}
					c := best.Clone()
					for j := i; j < i+size; j++ {
						c.S[st][j] = 0
					}
					if try(c) {
						improved = true
					}
				}
			}
			for i := 0; i < len(best.S[st]) && tests < maxTests; i++ {
				for best.S[st][i] > 0 && tests < maxTests {
					c := best.Clone()
					c.S[st][i] = best.S[st][i] / 2
					if !try(c) {
						c2 := best.Clone()
						c2.S[st][i] = best.S[st][i] - 1
						if !try(c2) {
							break
						}
					}
					improved = true
				}
			}
		}
	}
	return best, tests
}

// ---------------------------------------------------------------------------
// replay files

// Replay is the JSON document written for every reported violation.
type Replay struct {
	Property  string            `json:"property"` // property the violation is reported against
	Sim       string            `json:"sim"`      // simulation that produced it (may differ: the C06 monitor runs inside every sim)
	Seed      uint64            `json:"seed"`     // VERIF_SEED of the batch
	Index     uint64            `json:"index"`    // run index within the batch
	SubSeed   uint64            `json:"subseed"`
	Tier      string            `json:"tier"`
	Knobs     map[string]string `json:"knobs,omitempty"`
	Class     string            `json:"class"`      // violation class
	Signature string            `json:"signature"`  // what a known-findings matcher looks at
	Detail    string            `json:"detail"`     // human-readable statement of what failed
	EventHash string            `json:"event_hash"` // hash of the event log of the minimised run
	Tape      *Tape             `json:"tape"`       // minimised choice tape
	OrigLen   int               `json:"orig_tape_len"`
	MinLen    int               `json:"min_tape_len"`
	Shrinks   int               `json:"shrink_tests"`
	Trace     []string          `json:"trace"` // rendering of the minimised run: operations, fired faults, switches
	Extra     map[string]string `json:"extra,omitempty"`
}

func (r *Replay) Write(path string) error {
	b, err := json.MarshalIndent(r, "", " ")
	if err != nil {
		return err
	}
	return os.WriteFile(path, b, 0o644)
}

func ReadReplay(path string) (*Replay, error) {
	b, err := os.ReadFile(path)
	if err != nil {
		return nil, err
	}
	r := &Replay{}
	if err := json.Unmarshal(b, r); err != nil {
		return nil, fmt.Errorf("%s: %v", path, err)
	}
	if r.Tape == nil {
		return nil, fmt.Errorf("%s: no tape", path)
	}
	return r, nil
}
