// Command instrument rewrites a scratch copy of go-cty so that the simulator
// owns its sources of nondeterminism (DESIGN.md §3.2, §3.3, §5-C17):
//
//   - every `range` over a map becomes an iteration through verifseam.Range,
//     whose order is decided by the current task's map-order policy;
//   - every reflect.Value.MapKeys() result goes through verifseam.ReflectKeys;
//   - verifseam.Yield(site) is inserted at every function entry and loop head,
//     which is where the seeded scheduler may hand the baton to another task;
//   - in the decoder packages every make() with a non-constant size goes
//     through verifseam.MakeLen, which accounts the request against the record
//     being decoded.
//
// It never touches /repo: the driver hands it a copy. Usage:
//
//	instrument <dir-of-repo-copy>
//
// It writes <dir>/verif_sites.json describing every site, and exits 2 on any
// failure (never 1, which is reserved for property violations).
package main

import (
	"bytes"
	"encoding/json"
	"fmt"
	"go/ast"
	"go/format"
	"go/token"
	"go/types"
	"os"
	"path/filepath"
	"sort"
	"strings"

	"golang.org/x/tools/go/ast/astutil"
	"golang.org/x/tools/go/packages"
)

const seamPath = "github.com/zclconf/go-cty/cty/verifseam"

type Site struct {
	ID   int    `json:"id"`
	Kind string `json:"kind"` // maprange | reflectkeys | yield | make
	Pos  string `json:"pos"`
	Func string `json:"func,omitempty"`
}

type Report struct {
	Sites    []Site   `json:"sites"`
	MapRange int      `json:"maprange_sites"`
	Reflect  int      `json:"reflectkeys_sites"`
	Yield    int      `json:"yield_sites"`
	Make     int      `json:"make_sites"`
	Unowned  []string `json:"unowned_constructs"` // go statements, channels, sync/atomic uses, native map ranges left alone
	Files    int      `json:"files_rewritten"`
}

func die(f string, a ...interface{}) {
	fmt.Fprintf(os.Stderr, "instrument: "+f+"\n", a...)
	os.Exit(2)
}

func main() {
	if len(os.Args) != 2 {
		die("usage: instrument <dir>")
	}
	dir, err := filepath.Abs(os.Args[1])
	if err != nil {
		die("%v", err)
	}
	cfg := &packages.Config{
		Mode: packages.NeedName | packages.NeedFiles | packages.NeedCompiledGoFiles | packages.NeedSyntax |
			packages.NeedTypes | packages.NeedTypesInfo | packages.NeedImports | packages.NeedDeps,
		Dir:        dir,
		BuildFlags: []string{"-tags=verif"},
	}
	pkgs, err := packages.Load(cfg, "./cty/...")
	if err != nil {
		die("load: %v", err)
	}
	sort.Slice(pkgs, func(i, j int) bool { return pkgs[i].PkgPath < pkgs[j].PkgPath })
	rep := &Report{}
	next := 0
	newSite := func(kind string, fset *token.FileSet, pos token.Pos, fn string) int {
		next++
		p := fset.Position(pos)
		rel, _ := filepath.Rel(dir, p.Filename)
		rep.Sites = append(rep.Sites, Site{ID: next, Kind: kind, Pos: fmt.Sprintf("%s:%d", rel, p.Line), Func: fn})
		return next
	}
	lit := func(n int) ast.Expr { return &ast.BasicLit{Kind: token.INT, Value: fmt.Sprint(n)} }
	seamCall := func(name string, args ...ast.Expr) *ast.CallExpr {
		return &ast.CallExpr{Fun: &ast.SelectorExpr{X: ast.NewIdent("verifseam"), Sel: ast.NewIdent(name)}, Args: args}
	}

	for _, p := range pkgs {
		if len(p.Errors) > 0 {
			die("package %s: %v", p.PkgPath, p.Errors)
		}
		if strings.HasSuffix(p.PkgPath, "/verifseam") {
			continue
		}
		decoderPkg := strings.HasSuffix(p.PkgPath, "/cty/json") || strings.HasSuffix(p.PkgPath, "/cty/msgpack") || strings.HasSuffix(p.PkgPath, "/cty")
		for fi, f := range p.Syntax {
			fname := p.CompiledGoFiles[fi]
			base := filepath.Base(fname)
			if strings.HasSuffix(base, "_test.go") || strings.HasPrefix(base, "verif_") {
				continue
			}
			changed := false
			curFunc := ""

			// pass 0: constructs the scheduler does not own
			ast.Inspect(f, func(n ast.Node) bool {
				switch n := n.(type) {
				case *ast.GoStmt:
					rep.Unowned = append(rep.Unowned, "go statement at "+p.Fset.Position(n.Pos()).String())
				case *ast.SendStmt, *ast.SelectStmt:
					rep.Unowned = append(rep.Unowned, "channel operation at "+p.Fset.Position(n.Pos()).String())
				case *ast.UnaryExpr:
					if n.Op == token.ARROW {
						rep.Unowned = append(rep.Unowned, "channel receive at "+p.Fset.Position(n.Pos()).String())
					}
				case *ast.SelectorExpr:
					if id, ok := n.X.(*ast.Ident); ok {
						if pn, ok := p.TypesInfo.Uses[id].(*types.PkgName); ok {
							ip := pn.Imported().Path()
							if ip == "sync" || ip == "sync/atomic" || ip == "time" || ip == "math/rand" || ip == "os" {
								// time is used by stdlib datetime functions for parsing only; record
								// anything that could be a clock, lock or goroutine primitive.
								if ip != "time" || n.Sel.Name == "Now" || n.Sel.Name == "Since" || n.Sel.Name == "After" || n.Sel.Name == "Sleep" || n.Sel.Name == "NewTimer" || n.Sel.Name == "Tick" {
									rep.Unowned = append(rep.Unowned, fmt.Sprintf("%s.%s at %s", ip, n.Sel.Name, p.Fset.Position(n.Pos())))
								}
							}
						}
					}
				}
				return true
			})

			// pass 1: map ranges, reflect MapKeys, make sizes
			astutil.Apply(f, func(c *astutil.Cursor) bool {
				switch n := c.Node().(type) {
				case *ast.FuncDecl:
					curFunc = n.Name.Name
					if n.Recv != nil && len(n.Recv.List) > 0 {
						curFunc = types.ExprString(n.Recv.List[0].Type) + "." + n.Name.Name
					}
				case *ast.RangeStmt:
					t := p.TypesInfo.TypeOf(n.X)
					if t == nil {
						return true
					}
					if _, ok := t.Underlying().(*types.Map); !ok {
						return true
					}
					if _, isTP := t.(*types.TypeParam); isTP {
						rep.Unowned = append(rep.Unowned, "native map range over type parameter at "+p.Fset.Position(n.Pos()).String())
						return true
					}
					site := newSite("maprange", p.Fset, n.Pos(), curFunc)
					rep.MapRange++
					changed = true
					it := ast.NewIdent(fmt.Sprintf("verifIt%d", site))
					init := &ast.AssignStmt{Lhs: []ast.Expr{it}, Tok: token.DEFINE, Rhs: []ast.Expr{seamCall("Range", n.X, lit(site))}}
					cond := &ast.CallExpr{Fun: &ast.SelectorExpr{X: it, Sel: ast.NewIdent("Next")}}
					isBlank := func(e ast.Expr) bool {
						if e == nil {
							return true
						}
						id, ok := e.(*ast.Ident)
						return ok && id.Name == "_"
					}
					var lhs, rhs []ast.Expr
					if !isBlank(n.Key) {
						lhs = append(lhs, n.Key)
						rhs = append(rhs, &ast.CallExpr{Fun: &ast.SelectorExpr{X: it, Sel: ast.NewIdent("Key")}})
					}
					if !isBlank(n.Value) {
						lhs = append(lhs, n.Value)
						rhs = append(rhs, &ast.CallExpr{Fun: &ast.SelectorExpr{X: it, Sel: ast.NewIdent("Val")}})
					}
					var pre []ast.Stmt
					if len(lhs) > 0 {
						pre = append(pre, &ast.AssignStmt{Lhs: lhs, Tok: n.Tok, Rhs: rhs})
					}
					body := &ast.BlockStmt{List: append(pre, n.Body)}
					c.Replace(&ast.ForStmt{For: n.For, Init: init, Cond: cond, Body: body})
				case *ast.CallExpr:
					// make(T, n[, m]) in decoder packages
					if id, ok := n.Fun.(*ast.Ident); ok && id.Name == "make" && decoderPkg && len(n.Args) >= 2 {
						if _, isBuiltin := p.TypesInfo.Uses[id].(*types.Builtin); isBuiltin {
							mt := p.TypesInfo.TypeOf(n.Args[0])
							esz := int64(16)
							if mt != nil {
								switch u := mt.Underlying().(type) {
								case *types.Slice:
									esz = sizeof(u.Elem())
								case *types.Map:
									esz = sizeof(u.Key()) + sizeof(u.Elem()) + 8
								}
							}
							for ai := 1; ai < len(n.Args); ai++ {
								if tv, ok := p.TypesInfo.Types[n.Args[ai]]; ok && tv.Value != nil {
									continue // constant size
								}
								if inner, ok := n.Args[ai].(*ast.CallExpr); ok {
									if s, ok := inner.Fun.(*ast.SelectorExpr); ok && s.Sel.Name == "MakeLen" {
										continue
									}
								}
								site := newSite("make", p.Fset, n.Pos(), curFunc)
								rep.Make++
								changed = true
								n.Args[ai] = seamCall("MakeLen", n.Args[ai], lit(int(esz)), lit(site))
							}
						}
						return true
					}
					sel, ok := n.Fun.(*ast.SelectorExpr)
					if !ok || sel.Sel.Name != "MapKeys" || len(n.Args) != 0 {
						return true
					}
					if t := p.TypesInfo.TypeOf(sel.X); t == nil || t.String() != "reflect.Value" {
						return true
					}
					if par, ok := c.Parent().(*ast.CallExpr); ok {
						if ps, ok := par.Fun.(*ast.SelectorExpr); ok && ps.Sel.Name == "ReflectKeys" {
							return true
						}
					}
					site := newSite("reflectkeys", p.Fset, n.Pos(), curFunc)
					rep.Reflect++
					changed = true
					c.Replace(seamCall("ReflectKeys", n, lit(site)))
					return false
				}
				return true
			}, nil)

			// pass 2: yields at function entries and loop heads
			curFunc = ""
			yield := func(pos token.Pos) ast.Stmt {
				site := newSite("yield", p.Fset, pos, curFunc)
				rep.Yield++
				return &ast.ExprStmt{X: seamCall("Yield", lit(site))}
			}
			ast.Inspect(f, func(n ast.Node) bool {
				switch n := n.(type) {
				case *ast.FuncDecl:
					curFunc = n.Name.Name
					if n.Recv != nil && len(n.Recv.List) > 0 {
						curFunc = types.ExprString(n.Recv.List[0].Type) + "." + n.Name.Name
					}
					if n.Body != nil {
						n.Body.List = append([]ast.Stmt{yield(n.Pos())}, n.Body.List...)
						changed = true
					}
				case *ast.FuncLit:
					n.Body.List = append([]ast.Stmt{yield(n.Pos())}, n.Body.List...)
					changed = true
				case *ast.ForStmt:
					n.Body.List = append([]ast.Stmt{yield(n.Pos())}, n.Body.List...)
					changed = true
				case *ast.RangeStmt:
					n.Body.List = append([]ast.Stmt{yield(n.Pos())}, n.Body.List...)
					changed = true
				}
				return true
			})

			if changed {
				astutil.AddNamedImport(p.Fset, f, "verifseam", seamPath)
				var buf bytes.Buffer
				if err := format.Node(&buf, p.Fset, f); err != nil {
					die("%s: %v", fname, err)
				}
				if err := os.WriteFile(fname, buf.Bytes(), 0o644); err != nil {
					die("%v", err)
				}
				rep.Files++
			}
		}
	}
	sort.Strings(rep.Unowned)
	out, _ := json.MarshalIndent(rep, "", " ")
	if err := os.WriteFile(filepath.Join(dir, "verif_sites.json"), out, 0o644); err != nil {
		die("%v", err)
	}
	fmt.Printf("instrument: maprange=%d reflectkeys=%d yield=%d make=%d files=%d unowned=%d\n",
		rep.MapRange, rep.Reflect, rep.Yield, rep.Make, rep.Files, len(rep.Unowned))
}

var stdSizes = types.SizesFor("gc", "amd64")

func sizeof(t types.Type) (n int64) {
	defer func() {
		if recover() != nil {
			n = 16
		}
	}()
	n = stdSizes.Sizeof(t)
	if n <= 0 {
		n = 1
	}
	return n
}
