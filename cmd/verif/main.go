// Command verif is the driver of the go-cty deterministic simulation checks.
//
//	verif check <property> [--tier quick|thorough] [--seed N] [--workers N] [--keep]
//	verif replay <replay-file>
//	verif selftest determinism [--props C03,C05,...]
//
// A check copies /repo's working tree to a scratch directory outside /repo and
// /verif, instruments the copy, builds the simulation worker against it, runs
// worker processes over disjoint run indices, confirms every violation by
// replaying it in a fresh process, writes /verif/evidence/<id>.json and prints
// VIOLATION / KNOWN-FINDING lines. Exit codes: 0 held, 1 violation, 2 the
// machinery itself failed (never reported as a violation).
package main

import (
	"bufio"
	"bytes"
	"encoding/json"
	"fmt"
	"os"
	"os/exec"
	"os/signal"
	"path/filepath"
	"regexp"
	"runtime"
	"sort"
	"strconv"
	"strings"
	"sync"
	"syscall"
	"time"

	"verif/internal/tape"
)

// repoDir is the tree the checks rebuild from: /repo's working tree. (VERIF_REPO points background
// sweeps at a snapshot of /repo's HEAD so that they are not disturbed by experiments in /repo; the
// registered commands never set it.)
var repoDir = func() string {
	if d := os.Getenv("VERIF_REPO"); d != "" {
		return d
	}
	return "/repo"
}()

// evidenceDir is /verif/evidence; VERIF_EVIDENCE_DIR redirects it for experiments on deliberately broken
// copies of go-cty (tools/run_seeded.sh), so that they never overwrite the evidence of the real tree.
// replaysDir is /verif/replays; VERIF_REPLAYS_DIR redirects it for the same experiments.
func replaysDir() string {
	if d := os.Getenv("VERIF_REPLAYS_DIR"); d != "" {
		return d
	}
	return filepath.Join(verifDir, "replays")
}

func evidenceDir() string {
	if d := os.Getenv("VERIF_EVIDENCE_DIR"); d != "" {
		return d
	}
	return filepath.Join(verifDir, "evidence")
}

var verifDir = func() string {
	if d := os.Getenv("VERIF_DIR"); d != "" {
		return d
	}
	exe, err := os.Executable()
	if err == nil {
		d := filepath.Dir(filepath.Dir(exe))
		if _, err := os.Stat(filepath.Join(d, "MANIFEST.json")); err == nil {
			return d
		}
	}
	return "/verif"
}()

type propCfg struct {
	race        bool
	quickRuns   uint64        // total runs in the quick tier
	quickBudget time.Duration // wall budget per worker, quick
	thorBudget  time.Duration // wall budget per worker, thorough
	thorRuns    uint64
	level       string
	rule        string
	assumptions []string
	stubs       []string
	procShrink  int // maximum fresh-process shrink attempts for process-level failures
	rlimitAS    uint64
	runTimeout  time.Duration // per-execution limit inside the worker (default 120s)
}

var realComponents = []string{"github.com/zclconf/go-cty/cty (instrumented copy of the working tree)", "cty/set", "cty/convert", "cty/function", "cty/function/stdlib",
	"cty/json", "cty/msgpack", "cty/gocty", "cty/ctystrings", "github.com/vmihailenco/msgpack/v5", "github.com/apparentlymart/go-textseg/v15", "golang.org/x/text/unicode/norm", "Go standard library"}

var props = map[string]*propCfg{
	"C20": {race: true, quickRuns: 1 << 40, quickBudget: 42 * time.Second, thorBudget: 10 * time.Minute, thorRuns: 1 << 40, level: "exploration", procShrink: 60,
		rule: "one evaluation = one simulated world: a shared pool of 6..40 generated values (all kinds, marks, refined unknowns, capsules, collision-prone sets), types, shared ValueSets/PathSets and paths; 2..16 caller tasks each running a seeded history of 3..35 operations drawn from a per-run random subset of ~80 operations over the public API (operation methods, accessors followed by mutation of the returned Go data, constructors followed by mutation of the data passed in - the fresh result frozen before the mutation and compared after it -, ValueSet/PathSet copy-and-diverge life cycles, refinement builders reused after NewValue, Walk/Transform/Path.Apply, convert, conversions obtained once and shared by all tasks, stdlib function calls incl. a type-directed call table over every stdlib function, JSON/msgpack/gocty round trips). The same programs are executed five times: sequentially (fingerprints of every pre-existing object re-checked after every operation), sequentially again (purity), sequentially under another map-iteration order, and twice concurrently under the seeded baton scheduler (random / PCT / round-robin / call-granular strategies) with the Go race detector watching. Every run is non-trivial (it fires aliasing faults and context switches); distinct = distinct (tasks, operations, pool size, multiset of fired fault kinds).",
		assumptions: []string{"race detection is the Go race detector's happens-before analysis with history_size=7; sync.Pool and math/big's divisor-table lock are replaced in the simulation build only so that they do not order unrelated tasks (DESIGN.md §3.3)",
			"data whose ownership the documentation passes to the library (NumberVal's big.Float, Tuple/Object type arguments, a path placed in a PathSet) is never mutated by the harness",
			"error and panic texts and GoString of values with several marks may list members in map order; they are compared by class only",
			"tasks mutate only helper objects they own (copies of shared ValueSets/PathSets); the shared pool is built before the tasks start"},
		stubs: []string{"caller tasks (seeded operation histories)", "scheduler choice (seeded baton scheduler replaces the Go scheduler's choice of who runs)", "sync.Pool and math/big cacheBase10 lock (overlay, simulation build only)", "capsule operations"}},
	"C03": {quickRuns: 1 << 40, quickBudget: 35 * time.Second, thorBudget: 9 * time.Minute, thorRuns: 1 << 40, level: "exploration",
		rule: "one evaluation = one simulated run: either (sets) a seeded history of 8..57 steps over up to 4 ValueSets and 4 set values of one element type (15 element types: numbers, strings, bool, lists, tuples, objects, maps, sets, two capsule types) drawn from a collision-biased population of 4..23 members (the same member re-represented at other precisions / spellings, nulls, refined unknowns) - Add, Remove, Has, Copy and diverge, Union/Intersection/Subtract/SymmetricDifference, SetVal of a drawn multiset in two orders, SetValFromValueSet, AsValueSet, HasElement, Length, stdlib set functions, re-adding in a shuffled order - with every touched set compared after every step with a model set keyed by the checker's own canonical key (exact integer or shortest decimal, NFC, member-wise, sets as sets; unknown-containing members never equal), plus the equivalence laws over sampled pairs and triples of the population; or (laws) pairs and triples over a mixed-type population with marks, nulls, unknowns and dynamic types. Every run is non-trivial; distinct = distinct (element type, population size, multiset of fired fault kinds).",
		assumptions: []string{"number equality is the documented one: exact integer value, else the shortest decimal rendering (CHANGELOG 1.9.0); which of two unequal numbers is smaller may be decided on exact binary values or on those renderings",
			"a member containing an unknown at any depth is never equal to anything, itself included: every Add of it is kept, no Remove or Has matches it",
			"iteration order is compared only between wholly-known capsule-free sets with the same canonical members; which representative of an equivalence class a set keeps is not constrained"},
		stubs: []string{"caller of the set API (seeded history)", "capsule equality/hash operations"}},
	"C10": {quickRuns: 1 << 40, quickBudget: 30 * time.Second, thorBudget: 9 * time.Minute, thorRuns: 1 << 40, level: "exploration",
		rule: "one evaluation = one simulated run: one generated function specification (0..3 positional parameters and an optional variadic one, each with one of 13 type constraints incl. nested placeholders and every combination of the four allow flags; a type-check callback that is static, derived from the arguments, dynamic, partly dynamic (the placeholder nested inside a structure), fails or panics; an implementation callback that returns a conforming, marked, unknown, null or non-conforming value (another type altogether, or a structure breaking one concrete part of the checked type), fails or panics; optional result refinement) exercised by 4..15 calls through Call, Proxy, Unpredictable, WithNewDescriptions, ReturnType and ReturnTypeForValues with argument lists of every length around the arity mixing 8 argument kinds (conforming, deeply marked, non-conforming, null, null of unknown type, unknown incl. refined, DynamicVal, known with unknown/null members). Spies record the callback history; a protocol model derives the set of acceptable outcomes from the specification and the argument descriptions only. Every run is non-trivial (callbacks are the injected party); distinct = distinct (parameter count, variadic, callback behaviours, refinement, multiset of fired fault kinds).",
		assumptions: []string{"when a call has both a disallowed dynamically-typed argument and another offending argument, the argument error and the unknown-of-unknown-type result are both acceptable (type checking stops at the first dynamically-typed argument)",
			"'unknown' in the contract is unknown at the top level of an argument; nested unknowns reach the implementation by design",
			"a panic raised by a RefineResult that contradicts the implementation's own result (null under NotNull) escapes Call by documented design",
			"marks of arguments whose parameter allows marks may or may not appear on a short-circuit result; marks of the others must"},
		stubs: []string{"function author: Type, Impl and RefineResult callbacks (spies with injected failures)", "caller (seeded argument lists)"}},
	"C19": {quickRuns: 1 << 40, quickBudget: 35 * time.Second, thorBudget: 9 * time.Minute, thorRuns: 1 << 40, level: "exploration",
		rule: "one evaluation = one simulated run of one of three simulations: (walk) a generated value (all kinds to depth 3, or deep-and-narrow to depth 5; null, unknown, refined and marked members at every depth; sets) walked with a spying callback that may prune drawn subtrees or fail at a drawn member, then transformed (identity with Enter/Exit spies, replacement of one drawn member by another value of its type from the Exit or the Enter side, or a callback failing in Exit or in Enter), then unmarked with paths and re-marked in a drawn order, again with the same list, and with drawn subsets of it, then passed through UnknownAsNull - all judged against the generator's own model tree; (apply) 4..11 paths built step by step through the model, also through the path constructors, half of them damaged at a drawn step (wrong step kind, index out of range, negative or fractional index, missing key or attribute, step through null, step into a set; the damaged step last or followed by another), applied to the value and asked for their LastStep; (pathsets) a history of 10..59 PathSet operations over up to 4 sets and a pool of 3..20 paths whose steps collide on purpose (every index step hashes alike, an attribute named like the index placeholder, the same number in several representations, composed and decomposed keys) against a model set of canonical renderings. A run is non-trivial when the value has more than one member or at least one set operation ran; distinct = distinct (type, member count | pool size, multiset of fired fault kinds).",
		assumptions: []string{"sibling order is not promised: histories are checked for each-member-once and parent-before/after-child only",
			"Path.Apply adds the marks of every container it passes through: the member is compared mark-stripped, with marks a superset of its own and a subset of the value's",
			"paths whose keys are unknown or marked, and steps through unknown containers, are outside the oracle (documented as unsupported); attribute steps use normalized names",
			"two indistinguishable unknown members of one set would share one path; generated values keep one of them"},
		stubs: []string{"Walk / Transform callbacks and Transformer (spies with injected prune, failure, replacement)", "caller of the PathSet API (seeded history)"}},
	"C17": {quickRuns: 1 << 40, quickBudget: 30 * time.Second, thorBudget: 9 * time.Minute, thorRuns: 1 << 40, level: "exploration", procShrink: 40, rlimitAS: 3 << 30, runTimeout: 30 * time.Second,
		rule: "one evaluation = one simulated store round trip: 2..5 records are written (valid JSON encodings of generated values, capsule payloads included, under generalized type constraints, a quarter of them structures whose members share one type, MessagePack encodings with unknowns refined in every way and dynamic wrappers at any depth, JSON type descriptions with placeholders and optional attributes, noise over an alphabet of header bytes and JSON punctuation, hand-made extension records with 30 hostile refinement bodies and 19 bare headers with absurd lengths); one record is read back after 1..4 storage faults drawn from a per-run random subset of 13 kinds (bit flip, overwrite with a meaningful byte, torn write, lost sector, duplicated sector, misdirected read splicing a fragment of another record, zero fill, length-field edit guided by the checker's own MessagePack scanner, JSON token damage (kind swap, dropped delimiter, duplicated key, nesting up to 4000 deep, number respelling, token swap, object/array confusion), replacement of an item by a hostile refinement record, replacement by a bare header, a key or string item overwritten by a copy of a sibling) - or undamaged in the 10% control group, which is always read with the encoding type - through all five decoders with a target type equal to, derived from (12 edit kinds) or unrelated to the original; every implied type is fed back as a decoding target. A run is non-trivial when at least one fault changed the record or the record is noise / hand-made; distinct = distinct (codec, relation of the target type, sequence of fired faults).",
		assumptions: []string{"memory bound: every make() in go-cty's decoder packages (seam inserted by the instrumenter) may request at most 64 KiB + 4096 x record size in total (judged from the seam's own accounting, whatever the decoder does with the refusal); and the heap in use at its peak over a decode (sampled with the collector running at every 5% of growth; measured only for decodes whose total allocation exceeds the bound, which is the cheap screen) at most 4 MiB + 16384 x record size for the MessagePack decoders (the constant covers the fixed 1 MB read chunk of vmihailenco/msgpack) and 1 MiB + 16384 x record size for the JSON decoders; total allocation itself is NOT bounded: comparing and hashing nested sets of numbers renders the same numbers again and again (671 MB of short-lived garbage for a 6 KB record, 1.5 MB in use)",
			"decimal exponents beyond 10^6 (10^-4) in a damaged record are cut to that many digits before decoding: go-cty compares and hashes numbers through their full decimal expansion, so rendering larger ones takes minutes per operation (the effect is already reported at 10^6 through its memory footprint, see known_findings.txt)",
			"conformance of a result to the requested type is go-cty's TestConformance, which disregards optional-attribute annotations as the property says",
			"a decoder returning (DynamicVal, err) together is an error result; only the error matters",
			"worker processes run under a 3 GiB address-space limit so that an absurd allocation is a deterministic death, attributed to the record through the tape dumped before decoding"},
		stubs: []string{"record store with fault injection (the library is handed complete byte slices; it has no I/O of its own)", "writers and readers (seeded)"}},
	"C06": {quickRuns: 1 << 40, quickBudget: 40 * time.Second, thorBudget: 9 * time.Minute, thorRuns: 1 << 40, level: "exploration",
		rule: "one evaluation = one simulated run of one of the monitor's own two workloads: (conversions) one generated source value with null / unknown / refined / empty / marked members converted to 1..3 targets derived from its own type by several edits at once (kind swaps between sequence kinds and between mapping kinds, optional attributes on every object, extra optional attributes, dropped attributes, primitives turned into other primitives or the placeholder) through Convert, GetConversion, GetConversionUnsafe and the conversions UnifyUnsafe hands out, each result converted once more; or (monitor) a generated world (6..40 pool values of all kinds with marks, nulls, refined unknowns, capsules, collision-prone sets; types with placeholders and optional attributes; shared ValueSets) on which 20..79 operations drawn from the whole C20 operation table (~75 operations over the public API) and 10..39 constructor / conversion calls on awkward arguments (unnormalised keys, two spellings of one key, typed members next to placeholders, already-marked members, empty collections, conversion targets derived from the value's own type by kind swaps, placeholders, optional attributes, dropped and added attributes) are executed sequentially; every returned value and the members reached from it by iteration go through the well-formedness monitor (public accessor walk + tag-guarded internal check). The monitor additionally runs inside every other check (C03, C05, C10, C17, C19, C20), where a failure is reported as a C06 violation with that check's replay file. Every run is non-trivial; distinct = distinct (pool size, operation count, constructor count, multiset of fired kinds). values_checked_wellformed and wellformed_by_producer report what was checked per producing entry point.",
		assumptions: []string{"NullVal / UnknownVal / gocty.ToCtyValue given a type constraint that itself carries optional attributes return a value of that type as given; passing such a type to a constructor is caller misuse (the annotations are documented as meaningful only as conversion targets) and is not generated",
			"a collection may be built from placeholder-typed members next to typed ones; the placeholder is allowed exactly for unknown or null members and wholly-placeholder collections, as the constructors document",
			"conformance of conversion results to their target is property C08 (not decided by this work): the monitor counts it in a probe and never reports it"},
		stubs: []string{"caller (seeded operation and constructor sequences)", "capsule operations"}},
	"C05": {quickRuns: 1 << 40, quickBudget: 30 * time.Second, thorBudget: 9 * time.Minute, thorRuns: 1 << 40, level: "exploration",
		rule: "one evaluation = one simulated run: either a seeded history of 1..12 refinement-builder calls with interleaved NewValue snapshots (builder reused after a snapshot, or refining restarted from a snapshot; rejected calls are the injected contradictions) checked call by call against an interval/nullness/prefix/length model with 8 membership candidates (the range of the start value itself - known, null, dynamic or never refined - is judged before the first call), or one generated string cut at every rune boundary with 5 continuations each. A run is non-trivial when at least one builder call was accepted or more than one cut was examined; distinct = distinct (start type and kind | string, multiset of fired fault kinds) among non-trivial runs.",
		assumptions: []string{"numbers are compared by their shortest decimal rendering (integers exactly), as go-cty documents for Equals since 1.9.0",
			"infinite candidates are outside the oracle (an unbounded side is reported as open towards infinity)",
			"the state of a builder after a rejected (panicking) call is unspecified: the history continues from the last snapshot"},
		stubs: []string{"caller of the builder (seeded history)", "string continuation source"}},
}

func die(code int, f string, a ...interface{}) {
	fmt.Fprintf(os.Stderr, "verif: "+f+"\n", a...)
	os.Exit(code)
}

func goEnv() []string {
	env := os.Environ()
	env = append(env, "GOFLAGS=-mod=mod", "GOPROXY=off", "GOSUMDB=off", "GOTOOLCHAIN=local", "CGO_ENABLED=1")
	return env
}

func run(dir string, env []string, name string, args ...string) ([]byte, error) {
	cmd := exec.Command(name, args...)
	cmd.Dir = dir
	cmd.Env = env
	return cmd.CombinedOutput()
}

// scratch prepares the instrumented copy and the worker binary.
type scratch struct {
	dir    string
	worker string
	sites  map[string]interface{}
	nMap   int
	nYield int
	note   []string
}

func (s *scratch) cleanup() {
	if s != nil && s.dir != "" && os.Getenv("VERIF_KEEP_SCRATCH") == "" {
		os.RemoveAll(s.dir)
	}
}

// removeOnSignal removes the scratch directory when the driver is interrupted or terminated (a stopped
// background sweep must not leave a copy of go-cty and its build output behind). Exit 2: nothing was decided.
func removeOnSignal(s *scratch) {
	ch := make(chan os.Signal, 1)
	signal.Notify(ch, syscall.SIGINT, syscall.SIGTERM, syscall.SIGHUP)
	go func() {
		<-ch
		s.cleanup()
		os.Exit(2)
	}()
}

func prepare(race bool) (*scratch, error) {
	base := os.Getenv("VERIF_SCRATCH")
	if base == "" {
		base = os.TempDir()
	}
	dir, err := os.MkdirTemp(base, "ctysim-")
	if err != nil {
		return nil, err
	}
	s := &scratch{dir: dir}
	removeOnSignal(s)
	repo := filepath.Join(dir, "repo")
	if out, err := run("/", goEnv(), "rsync", "-a", "--exclude", ".git", repoDir+"/", repo+"/"); err != nil {
		return s, fmt.Errorf("rsync: %v: %s", err, out)
	}
	if err := os.MkdirAll(filepath.Join(repo, "cty", "verifseam"), 0o755); err != nil {
		return s, err
	}
	seam, err := os.ReadFile(filepath.Join(verifDir, "seam", "seam.go"))
	if err != nil {
		return s, err
	}
	if err := os.WriteFile(filepath.Join(repo, "cty", "verifseam", "seam.go"), seam, 0o644); err != nil {
		return s, err
	}
	gm, err := os.ReadFile(filepath.Join(repo, "go.mod"))
	if err != nil {
		return s, err
	}
	// interface{} map keys satisfy `comparable` only from language version 1.20 (DESIGN.md §3.2);
	// not 1.22: loop-variable semantics must stay as shipped.
	re := regexp.MustCompile(`(?m)^go 1\.(1[0-9])$`)
	gm = re.ReplaceAll(gm, []byte("go 1.20"))
	if err := os.WriteFile(filepath.Join(repo, "go.mod"), gm, 0o644); err != nil {
		return s, err
	}
	if out, err := run(verifDir, goEnv(), filepath.Join(verifDir, "bin", "instrument"), repo); err != nil {
		return s, fmt.Errorf("instrument: %v: %s", err, out)
	}
	if b, err := os.ReadFile(filepath.Join(repo, "verif_sites.json")); err == nil {
		var rep struct {
			MapRange int      `json:"maprange_sites"`
			Reflect  int      `json:"reflectkeys_sites"`
			Yield    int      `json:"yield_sites"`
			Unowned  []string `json:"unowned_constructs"`
		}
		if json.Unmarshal(b, &rep) == nil {
			s.nMap, s.nYield = rep.MapRange+rep.Reflect, rep.Yield
			if len(rep.Unowned) > 0 {
				s.note = append(s.note, fmt.Sprintf("constructs the simulator does not own were found in go-cty: %v", rep.Unowned))
			}
		}
	}
	vm, err := os.ReadFile(filepath.Join(verifDir, "go.mod"))
	if err != nil {
		return s, err
	}
	vm = bytes.Replace(vm, []byte("=> /repo"), []byte("=> "+repo), 1)
	if err := os.WriteFile(filepath.Join(dir, "verif.mod"), vm, 0o644); err != nil {
		return s, err
	}
	if sum, err := os.ReadFile(filepath.Join(verifDir, "go.sum")); err == nil {
		os.WriteFile(filepath.Join(dir, "verif.sum"), sum, 0o644)
	}
	s.worker = filepath.Join(dir, "simworker")
	args := []string{"build", "-modfile=" + filepath.Join(dir, "verif.mod"), "-tags", "verif", "-trimpath"}
	if race {
		args = append(args, "-race")
		if ov, note := makeOverlay(dir); ov != "" {
			// (the tag tells the worker that package sync has the switch the overlay adds, see makeOverlay)
			args[3] = "verif,verifpool"
			args = append(args, "-overlay", ov)
		} else {
			s.note = append(s.note, "standard-library overlay not applied: "+note)
		}
	}
	args = append(args, "-o", s.worker, "./sim")
	if out, err := run(verifDir, goEnv(), "go", args...); err != nil {
		return s, fmt.Errorf("go build of the simulation worker against the instrumented copy failed: %v\n%s", err, out)
	}
	return s, nil
}

// makeOverlay writes patched copies of sync/pool.go and math/big/natconv.go (DESIGN.md §3.3)
// into the scratch directory and returns the overlay file, or "" with a reason.
func makeOverlay(dir string) (string, string) {
	out, err := run("/", goEnv(), "go", "env", "GOROOT")
	if err != nil {
		return "", "go env GOROOT failed"
	}
	goroot := strings.TrimSpace(string(out))
	repl := map[string]string{}
	// 1. sync.Pool: under the race detector never hand an object from one goroutine to another
	poolPath := filepath.Join(goroot, "src", "sync", "pool.go")
	pool, err := os.ReadFile(poolPath)
	if err != nil {
		return "", "cannot read sync/pool.go"
	}
	p := string(pool)
	oldPut := "func (p *Pool) Put(x any) {\n\tif x == nil {\n\t\treturn\n\t}\n"
	oldGet := "func (p *Pool) Get() any {\n"
	if strings.Count(p, oldPut) != 1 || strings.Count(p, oldGet) != 1 {
		return "", "sync/pool.go does not match the expected text"
	}
	// (switchable: a run that draws "real pooling" sets VerifPooling and gets sync.Pool as shipped - a library that
	// hands a pooled object back too early is only seen with pooling on, a race hidden by the pool's own
	// happens-before edges only with pooling off; the worlds are split between the two)
	p = strings.Replace(p, oldPut, "// VerifPooling is added by the verif overlay: false means no pooling under the race detector.\nvar VerifPooling bool\n\n"+oldPut+"\tif race.Enabled && !VerifPooling {\n\t\treturn // verif overlay: no pooling under the race detector\n\t}\n", 1)
	p = strings.Replace(p, oldGet, oldGet+"\tif race.Enabled && !VerifPooling {\n\t\tif p.New != nil {\n\t\t\treturn p.New()\n\t\t}\n\t\treturn nil\n\t}\n", 1)
	pf := filepath.Join(dir, "overlay_pool.go")
	if err := os.WriteFile(pf, []byte(p), 0o644); err != nil {
		return "", err.Error()
	}
	repl[poolPath] = pf
	// 2. math/big: build the base-10 divisor table per call instead of locking the shared cache
	ncPath := filepath.Join(goroot, "src", "math", "big", "natconv.go")
	nc, err := os.ReadFile(ncPath)
	if err != nil {
		return "", "cannot read math/big/natconv.go"
	}
	n := string(nc)
	oldNC := "\tif b == 10 {\n\t\tcacheBase10.Lock()\n"
	if strings.Count(n, oldNC) != 1 {
		return "", "math/big/natconv.go does not match the expected text"
	}
	n = strings.Replace(n, oldNC, "\tif false && b == 10 { // verif overlay: no shared table, no lock\n\t\tcacheBase10.Lock()\n", 1)
	oldUn := "\tif b == 10 {\n\t\tcacheBase10.Unlock()\n"
	if strings.Count(n, oldUn) != 1 {
		return "", "math/big/natconv.go unlock site does not match the expected text"
	}
	n = strings.Replace(n, oldUn, "\tif false && b == 10 {\n\t\tcacheBase10.Unlock()\n", 1)
	nf := filepath.Join(dir, "overlay_natconv.go")
	if err := os.WriteFile(nf, []byte(n), 0o644); err != nil {
		return "", err.Error()
	}
	repl[ncPath] = nf
	ov := map[string]interface{}{"Replace": repl}
	b, _ := json.Marshal(ov)
	of := filepath.Join(dir, "overlay.json")
	if err := os.WriteFile(of, b, 0o644); err != nil {
		return "", err.Error()
	}
	return of, ""
}

// ---------------------------------------------------------------------------

type workerResult struct {
	viols             []*violRec
	nondet            []string
	stats             []map[string]interface{}
	done              uint64
	procFail          []procFailure
	inconclusive      int
	unconfirmedDeaths int
	suspects          []*violRec
	timeouts          int
	timeoutRuns       []uint64
}

type violRec struct {
	rp   *tape.Replay
	file string
}

type procFailure struct {
	from   uint64 // first run index of the worker process that died (its history: from..index)
	index  uint64
	sim    string
	exit   int
	stderr string
}

type known struct {
	kind     string // finding | fixed
	property string
	class    string
	sig      *regexp.Regexp
	text     string
}

func loadKnown() ([]known, error) {
	f, err := os.Open(filepath.Join(verifDir, "known_findings.txt"))
	if err != nil {
		if os.IsNotExist(err) {
			return nil, nil
		}
		return nil, err
	}
	defer f.Close()
	var out []known
	sc := bufio.NewScanner(f)
	for sc.Scan() {
		line := strings.TrimSpace(sc.Text())
		if line == "" || strings.HasPrefix(line, "#") {
			continue
		}
		switch {
		case strings.HasPrefix(line, "finding:"):
			// finding: property=C03 class=<class> signature=<regexp> :: text
			rest := strings.TrimSpace(strings.TrimPrefix(line, "finding:"))
			parts := strings.SplitN(rest, "::", 2)
			k := known{kind: "finding"}
			if len(parts) == 2 {
				k.text = strings.TrimSpace(parts[1])
			}
			for _, f := range strings.Fields(parts[0]) {
				kv := strings.SplitN(f, "=", 2)
				if len(kv) != 2 {
					continue
				}
				switch kv[0] {
				case "property":
					k.property = kv[1]
				case "class":
					k.class = kv[1]
				case "signature":
					re, err := regexp.Compile("^(?:" + kv[1] + ")$")
					if err != nil {
						return nil, fmt.Errorf("known_findings.txt: bad signature %q: %v", kv[1], err)
					}
					k.sig = re
				}
			}
			if k.property == "" || k.class == "" || k.sig == nil {
				return nil, fmt.Errorf("known_findings.txt: incomplete finding line: %s", line)
			}
			out = append(out, k)
		case strings.HasPrefix(line, "fixed:"):
			out = append(out, known{kind: "fixed", text: line})
		}
	}
	return out, sc.Err()
}

func matchKnown(ks []known, rp *tape.Replay) *known {
	for i := range ks {
		k := &ks[i]
		if k.kind == "finding" && k.property == rp.Property && k.class == rp.Class && k.sig.MatchString(rp.Signature) {
			return k
		}
	}
	return nil
}

func readResults(path string, res *workerResult) (lastStart int64, lastSim string) {
	lastStart = -1
	f, err := os.Open(path)
	if err != nil {
		return
	}
	defer f.Close()
	sc := bufio.NewScanner(f)
	sc.Buffer(make([]byte, 1<<20), 64<<20)
	open := int64(-1)
	for sc.Scan() {
		var l struct {
			T     string                 `json:"t"`
			I     uint64                 `json:"i"`
			Sim   string                 `json:"sim"`
			Viol  *tape.Replay           `json:"viol"`
			File  string                 `json:"file"`
			Msg   string                 `json:"msg"`
			Stats map[string]interface{} `json:"stats"`
		}
		line := sc.Bytes()
		if err := json.Unmarshal(line, &l); err != nil {
			continue
		}
		switch l.T {
		case "start":
			open = int64(l.I)
			lastSim = l.Sim
		case "done":
			open = -1
			res.done++
		case "viol":
			open = -1
			res.done++
			res.viols = append(res.viols, &violRec{rp: l.Viol, file: l.File})
		case "nondeterministic":
			open = -1
			res.nondet = append(res.nondet, fmt.Sprintf("run %d: %s", l.I, l.Msg))
		case "suspect":
			open = -1
			res.done++
			res.suspects = append(res.suspects, &violRec{rp: l.Viol, file: l.File})
		case "inconclusive":
			open = -1
			res.done++
			res.inconclusive++
		case "stats":
			var full map[string]interface{}
			json.Unmarshal(line, &full)
			res.stats = append(res.stats, full)
		}
	}
	return open, lastSim
}

// runTimed runs a helper process with a hard limit; a process that outlives it is killed and
// reported as exit status 124 (like timeout(1)), which no caller mistakes for a reproduced failure.
func runTimed(cmd *exec.Cmd, d time.Duration) error {
	if err := cmd.Start(); err != nil {
		return err
	}
	done := make(chan error, 1)
	go func() { done <- cmd.Wait() }()
	select {
	case err := <-done:
		return err
	case <-time.After(d):
		cmd.Process.Kill()
		<-done
		return errTimedOut
	}
}

var errTimedOut = fmt.Errorf("helper process timed out")

var checkStart = time.Now()

func progress(f string, a ...interface{}) {
	fmt.Printf("verif: [%5.1fs] %s\n", time.Since(checkStart).Seconds(), fmt.Sprintf(f, a...))
}

func exitCode(err error) int {
	if err == errTimedOut {
		return 124
	}
	if err == nil {
		return 0
	}
	if ee, ok := err.(*exec.ExitError); ok {
		if ws, ok := ee.Sys().(syscall.WaitStatus); ok {
			if ws.Signaled() {
				return 128 + int(ws.Signal())
			}
			return ws.ExitStatus()
		}
	}
	return -1
}

func workerEnv(cfg *propCfg) []string {
	env := os.Environ()
	if cfg.race {
		env = append(env, "GORACE=halt_on_error=1 exitcode=66 history_size=7")
	}
	if cfg.runTimeout > 0 {
		env = append(env, "VERIF_RUN_TIMEOUT="+cfg.runTimeout.String())
	}
	if cfg.rlimitAS > 0 && !cfg.race {
		env = append(env, fmt.Sprintf("VERIF_RLIMIT_AS=%d", cfg.rlimitAS))
	}
	return env
}

// runWorker runs one worker over [from, from+n), restarting it after process-level failures.
func runWorker(s *scratch, cfg *propCfg, prop, tier string, seed, from, n uint64, budget time.Duration, wid int, res *workerResult) error {
	deadline := time.Now().Add(budget + 20*time.Second)
	for n > 0 {
		left := time.Until(deadline) - 20*time.Second
		if left <= 0 {
			return nil
		}
		out := filepath.Join(s.dir, fmt.Sprintf("out-%d-%d.jsonl", wid, from))
		args := []string{"run", "-prop", prop, "-seed", fmt.Sprint(seed), "-from", fmt.Sprint(from), "-n", fmt.Sprint(n), "-tier", tier,
			"-out", out, "-replays", replaysDir(), "-budget", left.String()}
		cmd := exec.Command(s.worker, args...)
		cmd.Env = workerEnv(cfg)
		var stderr bytes.Buffer
		cmd.Stderr = &stderr
		cmd.Stdout = &stderr
		if err := cmd.Start(); err != nil {
			return err
		}
		doneCh := make(chan error, 1)
		go func() { doneCh <- cmd.Wait() }()
		var werr error
		select {
		case werr = <-doneCh:
		case <-time.After(time.Until(deadline) + 120*time.Second):
			cmd.Process.Kill()
			<-doneCh
			return fmt.Errorf("worker %d exceeded its watchdog (budget %v)", wid, budget)
		}
		nSus := len(res.suspects)
		open, sim := readResults(out, res)
		code := exitCode(werr)
		if code == 0 {
			return nil
		}
		if code == 78 && open >= 0 {
			// one execution exceeded the per-run time limit: not something any property here forbids;
			// counted, skipped, and the search continues after it in a fresh process
			res.timeouts++
			res.timeoutRuns = append(res.timeoutRuns, uint64(open))
			adv := uint64(open) + 1 - from
			from += adv
			n -= adv
			if res.timeouts >= 20 {
				return nil
			}
			continue
		}
		if code == 79 && len(res.suspects) > nSus {
			// the worker found that it carries state from one execution to the next and stopped;
			// continue after that run in a fresh process
			adv := res.suspects[len(res.suspects)-1].rp.Index + 1 - from
			from += adv
			n -= adv
			if len(res.suspects) >= 3 {
				return nil
			}
			continue
		}
		if open < 0 {
			se := stderr.String()
			if len(se) > 2000 {
				se = se[:2000]
			}
			return fmt.Errorf("worker %d exited with status %d outside any run: %s", wid, code, se)
		}
		se := stderr.String()
		if len(se) > 6000 {
			se = se[:6000]
		}
		res.procFail = append(res.procFail, procFailure{index: uint64(open), from: from, sim: sim, exit: code, stderr: se})
		adv := uint64(open) + 1 - from
		from += adv
		n -= adv
		if len(res.procFail) >= 5 {
			return nil
		}
	}
	return nil
}

func cmdCheck(args []string) {
	if len(args) < 1 {
		die(2, "usage: verif check <property> [--tier quick|thorough] [--seed N]")
	}
	prop := args[0]
	cfg, ok := props[prop]
	if !ok {
		die(2, "no check is registered for %s", prop)
	}
	tier := os.Getenv("VERIF_TIER")
	if tier == "" {
		tier = "quick"
	}
	seedSet := false
	var seed uint64
	if sv := os.Getenv("VERIF_SEED"); sv != "" {
		if v, err := strconv.ParseUint(sv, 10, 64); err == nil {
			seed, seedSet = v, true
		} else if v, err := strconv.ParseInt(sv, 10, 64); err == nil {
			seed, seedSet = uint64(v), true
		}
	}
	workers := runtime.NumCPU()
	if workers > 16 {
		workers = 16
	}
	keep := false
	var budgetOverride time.Duration
	for i := 1; i < len(args); i++ {
		switch args[i] {
		case "--tier":
			i++
			tier = args[i]
		case "--seed":
			i++
			v, err := strconv.ParseUint(args[i], 10, 64)
			if err != nil {
				die(2, "bad seed")
			}
			seed, seedSet = v, true
		case "--workers":
			i++
			workers, _ = strconv.Atoi(args[i])
		case "--budget":
			i++
			budgetOverride, _ = time.ParseDuration(args[i])
		case "--keep":
			keep = true
		default:
			die(2, "unknown flag %s", args[i])
		}
	}
	if tier != "quick" && tier != "thorough" {
		die(2, "unknown tier %q", tier)
	}
	if !seedSet {
		seed = map[string]uint64{"quick": 20260929, "thorough": 7}[tier]
	}
	fmt.Printf("verif: property=%s tier=%s VERIF_SEED=%d workers=%d\n", prop, tier, seed, workers)
	t0 := time.Now()
	os.MkdirAll(replaysDir(), 0o755)
	os.MkdirAll(evidenceDir(), 0o755)
	ks, err := loadKnown()
	if err != nil {
		die(2, "%v", err)
	}
	s, err := prepare(cfg.race)
	if !keep {
		defer s.cleanup()
	}
	if err != nil {
		s.cleanup()
		die(2, "%v", err)
	}
	buildS := time.Since(t0).Seconds()
	progress("scratch copy instrumented and worker built (%d map-order sites, %d yield sites)", s.nMap, s.nYield)

	total := cfg.quickRuns
	budget := cfg.quickBudget
	if tier == "thorough" {
		total, budget = cfg.thorRuns, cfg.thorBudget
	}
	if budgetOverride > 0 {
		budget = budgetOverride
	}
	per := total / uint64(workers)
	if per == 0 {
		per = 1
	}
	results := make([]*workerResult, workers)
	errs := make([]error, workers)
	var wg sync.WaitGroup
	for w := 0; w < workers; w++ {
		results[w] = &workerResult{}
		wg.Add(1)
		go func(w int) {
			defer wg.Done()
			// disjoint index ranges: worker w owns [w*2^40, w*2^40+per)
			errs[w] = runWorker(s, cfg, prop, tier, seed, uint64(w)<<40, per, budget, w, results[w])
		}(w)
	}
	wg.Wait()
	progress("workers finished")
	for w, e := range errs {
		if e != nil {
			s.cleanup()
			die(2, "worker %d: %v", w, e)
		}
	}
	// ---- aggregate
	agg := &workerResult{}
	for _, r := range results {
		agg.viols = append(agg.viols, r.viols...)
		agg.nondet = append(agg.nondet, r.nondet...)
		agg.stats = append(agg.stats, r.stats...)
		agg.procFail = append(agg.procFail, r.procFail...)
		agg.done += r.done
		agg.inconclusive += r.inconclusive
		agg.suspects = append(agg.suspects, r.suspects...)
		agg.timeouts += r.timeouts
		agg.timeoutRuns = append(agg.timeoutRuns, r.timeoutRuns...)
	}
	if len(agg.nondet) > 0 {
		s.cleanup()
		die(2, "non-deterministic harness: %d runs did not replay identically, e.g. %s", len(agg.nondet), agg.nondet[0])
	}
	// process-level failures become violations after fresh-process confirmation
	// everything after the search phase (confirmation and minimisation across fresh processes) has
	// its own overall limit: when it runs out, what is still unconfirmed is counted, not minimised
	confirmDeadline := time.Now().Add(4 * time.Minute)
	if tier == "thorough" {
		confirmDeadline = time.Now().Add(20 * time.Minute)
	}
	progress("%d in-process violations, %d process-level failures, %d suspects, %d timed-out runs to examine", len(agg.viols), len(agg.procFail), len(agg.suspects), agg.timeouts)
	sort.Slice(agg.procFail, func(i, j int) bool { return agg.procFail[i].index < agg.procFail[j].index })
	confirmedPF := 0
	var unreproduced []procFailure
	for _, pf := range agg.procFail {
		if confirmedPF >= 3 || time.Now().After(confirmDeadline) {
			// enough: each confirmation is minimised across fresh processes, which is slow; the rest
			// are further deaths of the same batch and are only counted
			agg.unconfirmedDeaths++
			continue
		}
		if v := confirmProcFailure(s, cfg, prop, tier, seed, pf); v != nil {
			agg.viols = append(agg.viols, v)
			confirmedPF++
		} else {
			unreproduced = append(unreproduced, pf)
			if len(unreproduced) >= 4 && confirmedPF == 0 {
				break
			}
		}
	}
	if len(unreproduced) > 0 && confirmedPF == 0 {
		// nothing that killed a worker can be shown again: the machinery cannot decide, and says so
		pf := unreproduced[0]
		s.cleanup()
		die(2, "%d worker deaths (first: exit %d at run %d) reproduced neither alone nor with their process history in a fresh process:\n%s", len(unreproduced), pf.exit, pf.index, pf.stderr)
	}
	if len(unreproduced) > 0 {
		fmt.Printf("NOTE: %d worker deaths did not reproduce in a fresh process and are not reported (others of the same batch did)\n", len(unreproduced))
	}
	// suspects: violations that did not reproduce inside the worker that found them; a fresh process decides
	sort.Slice(agg.suspects, func(i, j int) bool { return agg.suspects[i].rp.Index < agg.suspects[j].rp.Index })
	for k, sv := range agg.suspects {
		if k >= 3 || time.Now().After(confirmDeadline) {
			break
		}
		try := func(file string) bool {
			cmd := exec.Command(s.worker, "try", "-q", "-file", file)
			cmd.Env = workerEnv(cfg)
			return exitCode(runTimed(cmd, 200*time.Second)) == 0
		}
		if !try(sv.file) {
			s.cleanup()
			die(2, "non-deterministic harness: violation %s (%s) reproduced neither in its own process nor in a fresh one; replay file %s\n%s", sv.rp.Class, sv.rp.Signature, sv.file, sv.rp.Detail)
		}
		// minimise across fresh processes
		if cfg.procShrink > 0 {
			cand := filepath.Join(s.dir, "suspect-cand.json")
			shrinkEnd := time.Now().Add(150 * time.Second)
			min, tests := tape.Shrink(sv.rp.Tape, func(t *tape.Tape) bool {
				c := *sv.rp
				c.Tape = t
				return time.Now().Before(shrinkEnd) && c.Write(cand) == nil && try(cand)
			}, cfg.procShrink)
			sv.rp.Tape, sv.rp.MinLen, sv.rp.Shrinks = min, min.Len(), tests
			sv.rp.Write(sv.file)
		}
		sv.rp.Detail += "\n(the violation does not reproduce when the same tape is executed a second time in one process: the library carries state from one execution to the next; confirmed and minimised in fresh processes)"
		sv.rp.Write(sv.file)
		agg.viols = append(agg.viols, sv)
	}
	progress("confirming in-process violations in fresh processes")
	// confirm every in-process violation in a fresh process
	type outV struct {
		rp    *tape.Replay
		file  string
		known *known
	}
	var confirmed []outV
	var unreproducedV []string
	seen := map[string]bool{}
	sort.Slice(agg.viols, func(i, j int) bool {
		a, b := agg.viols[i].rp, agg.viols[j].rp
		if a.MinLen != b.MinLen {
			return a.MinLen < b.MinLen
		}
		return a.Index < b.Index
	})
	for _, v := range agg.viols {
		key := v.rp.Property + "|" + v.rp.Class + "|" + v.rp.Signature
		if seen[key] {
			continue
		}
		if v.rp.Extra["process_level"] == "" && v.rp.Extra["needs_fresh_process"] == "" {
			cmd := exec.Command(s.worker, "replay", "-q", "-file", v.file)
			cmd.Env = workerEnv(cfg)
			err := runTimed(cmd, 200*time.Second)
			if code := exitCode(err); code != 1 && v.rp.Class == "excessive-allocation" {
				// decided on a measured quantity (bytes allocated): not reproducing in a fresh process is
				// inconclusive, never reported and never a harness fault
				agg.inconclusive++
				continue
			} else if code != 1 {
				// not shown again in a fresh process: never reported. When nothing else of this batch is confirmed
				// either, the check cannot decide and says so (exit 2) below; when other violations are, this one is
				// counted in a NOTE (typically a run that met state an earlier run of its process had left behind in a
				// library that keeps state - what the confirmed violations are about)
				unreproducedV = append(unreproducedV, fmt.Sprintf("%s (%s), exit %d, replay file %s", v.rp.Class, v.rp.Signature, code, v.file))
				continue
			}
		}
		seen[key] = true
		confirmed = append(confirmed, outV{v.rp, v.file, matchKnown(ks, v.rp)})
	}
	if len(unreproducedV) > 0 && len(confirmed) == 0 {
		s.cleanup()
		die(2, "non-deterministic harness: %d violations did not reproduce in a fresh process and none did, e.g. %s", len(unreproducedV), unreproducedV[0])
	}
	if len(unreproducedV) > 0 {
		fmt.Printf("NOTE: %d violations found by workers did not reproduce in a fresh process and are not reported (others of the same batch did), e.g. %s\n", len(unreproducedV), unreproducedV[0])
	}
	nViol := 0
	for _, v := range confirmed {
		if v.known != nil {
			fmt.Printf("KNOWN-FINDING: property=%s %s [class=%s signature=%s replay=%s]\n", v.rp.Property, v.known.text, v.rp.Class, v.rp.Signature, v.file)
			continue
		}
		nViol++
		fmt.Printf("VIOLATION property=%s replay=%s\n", v.rp.Property, v.file)
		fmt.Printf("  class=%s signature=%s sim=%s index=%d tape %d->%d draws\n  %s\n", v.rp.Class, v.rp.Signature, v.rp.Sim, v.rp.Index, v.rp.OrigLen, v.rp.MinLen,
			strings.ReplaceAll(v.rp.Detail, "\n", "\n  "))
	}
	// replay files of violations that are not reported (further witnesses of a reported signature) are removed:
	// only what a printed line names stays on disk
	reported := map[string]bool{}
	for _, v := range confirmed {
		reported[v.file] = true
	}
	for _, v := range agg.viols {
		if v.file != "" && !reported[v.file] {
			os.Remove(v.file)
		}
	}
	if agg.timeouts > 0 {
		fmt.Printf("NOTE: %d runs exceeded the per-run time limit and were skipped (CPU time is not part of this property; indices are in the evidence file)\n", agg.timeouts)
	}
	if agg.unconfirmedDeaths > 0 {
		fmt.Printf("NOTE: %d further worker deaths of this batch were not minimised (limit reached)\n", agg.unconfirmedDeaths)
	}
	wall := time.Since(t0).Seconds()
	if err := writeEvidence(prop, tier, seed, cfg, s, agg, nViol, len(confirmed)-nViol, wall, buildS, workers); err != nil {
		s.cleanup()
		die(2, "evidence: %v", err)
	}
	fmt.Printf("verif: property=%s runs=%d violations=%d known_findings=%d wall=%.1fs\n", prop, agg.done, nViol, len(confirmed)-nViol, wall)
	if nViol > 0 {
		s.cleanup()
		os.Exit(1)
	}
}

// confirmProcFailure re-runs one run index alone in a fresh process; if it dies the same way the
// failure is a violation (class race / worker-death), minimised across processes.
func confirmProcFailure(s *scratch, cfg *propCfg, prop, tier string, seed uint64, pf procFailure) *violRec {
	dump := filepath.Join(s.dir, fmt.Sprintf("dump-%d.json", pf.index))
	runIdx := func() (int, string) {
		out := filepath.Join(s.dir, fmt.Sprintf("confirm-%d.jsonl", pf.index))
		os.Remove(out)
		cmd := exec.Command(s.worker, "run", "-prop", prop, "-seed", fmt.Sprint(seed), "-from", fmt.Sprint(pf.index), "-n", "1", "-tier", tier, "-out", out, "-dumptape", dump)
		cmd.Env = workerEnv(cfg)
		var se bytes.Buffer
		cmd.Stderr = &se
		cmd.Stdout = &se
		err := runTimed(cmd, 200*time.Second)
		return exitCode(err), se.String()
	}
	code, se := runIdx()
	warmFrom := pf.index
	if code != pf.exit && pf.from < pf.index {
		// The run alone does not fail in a fresh process. A process-level failure may need the history of
		// the process it happened in (the race detector decides on shadow state and on the synchronisation
		// every earlier execution left behind; a library that keeps state between calls - what C20 forbids -
		// needs the calls that built it). Run indices are a pure function of the seed, so that history is
		// reproducible: execute the same runs again, in a fresh process, and require the same death at the
		// same run; then find the shortest history that still does it.
		runHist := func(from uint64) (int, int64, string) {
			out := filepath.Join(s.dir, fmt.Sprintf("confirm-%d-%d.jsonl", from, pf.index))
			os.Remove(out)
			cmd := exec.Command(s.worker, "run", "-prop", prop, "-seed", fmt.Sprint(seed), "-from", fmt.Sprint(from), "-n", fmt.Sprint(pf.index-from+1),
				"-tier", tier, "-out", out, "-dumptape", dump)
			cmd.Env = workerEnv(cfg)
			var se bytes.Buffer
			cmd.Stderr = &se
			cmd.Stdout = &se
			err := runTimed(cmd, 400*time.Second)
			open, _ := readResults(out, &workerResult{})
			return exitCode(err), open, se.String()
		}
		if c2, open, se2 := runHist(pf.from); c2 == pf.exit && open == int64(pf.index) {
			code, se, warmFrom = c2, se2, pf.from
			for _, k := range []uint64{1, 2, 4, 8, 16} {
				if pf.index-k <= pf.from {
					break
				}
				if c3, open3, se3 := runHist(pf.index - k); c3 == pf.exit && open3 == int64(pf.index) {
					se, warmFrom = se3, pf.index-k
					break
				}
			}
		}
	}
	if code != pf.exit {
		return nil
	}
	class := "worker-death"
	if code == 66 {
		class = "race"
	}
	rp, err := tape.ReadReplay(dump)
	if err != nil {
		return nil
	}
	try := func(t *tape.Tape) bool {
		c := *rp
		c.Tape = t
		f := filepath.Join(s.dir, "cand.json")
		if c.Write(f) != nil {
			return false
		}
		cmd := exec.Command(s.worker, "try", "-q", "-file", f)
		cmd.Env = workerEnv(cfg)
		return exitCode(runTimed(cmd, 200*time.Second)) == pf.exit
	}
	min := rp.Tape
	tests := 0
	shrinkEnd := time.Now().Add(150 * time.Second)
	if warmFrom == pf.index && cfg.procShrink > 0 && try(rp.Tape) {
		min, tests = tape.Shrink(rp.Tape, func(t *tape.Tape) bool { return time.Now().Before(shrinkEnd) && try(t) }, cfg.procShrink)
	}
	if len(se) > 6000 {
		se = se[:6000]
	}
	rp.Property, rp.Class, rp.Signature = prop, class, class+":"+raceSignature(se)
	rp.Detail = fmt.Sprintf("the worker process died with status %d while executing this run (reproduced in a fresh process)\n%s", code, se)
	rp.OrigLen, rp.MinLen, rp.Shrinks = rp.Tape.Len(), min.Len(), tests
	rp.Tape = min
	if rp.Extra == nil {
		rp.Extra = map[string]string{}
	}
	rp.Extra["process_level"] = fmt.Sprint(code)
	rp.Extra["check_property"] = prop
	if warmFrom != pf.index {
		// replayed by executing runs warm_from..index of this seed in one fresh process (verif replay does that);
		// the tape is that of the run that died, unminimised: its failure depends on the executions before it
		rp.Extra["warm_from"] = fmt.Sprint(warmFrom)
		rp.Detail = fmt.Sprintf("the worker process died with status %d while executing this run, after runs %d..%d of the same seed in the same process; "+
			"the run alone does not fail in a fresh process, the same sequence of runs does (reproduced in a fresh process)\n%s", code, warmFrom, pf.index-1, se)
	}
	file := filepath.Join(replaysDir(), fmt.Sprintf("%s-%s-%d-%d.json", prop, class, seed, pf.index))
	if rp.Write(file) != nil {
		return nil
	}
	return &violRec{rp: rp, file: file}
}

var raceLoc = regexp.MustCompile(`(?m)^\s+(github\.com/zclconf/go-cty/[^\s(]+)\(`)

// raceSignature extracts the first go-cty frame of each of the two stacks of a race report.
func raceSignature(report string) string {
	var locs []string
	for _, blk := range strings.Split(report, "\n\n") {
		if m := raceLoc.FindStringSubmatch(blk); m != nil {
			locs = append(locs, strings.TrimPrefix(m[1], "github.com/zclconf/go-cty/"))
		}
		if len(locs) == 2 {
			break
		}
	}
	if len(locs) == 0 {
		return "unattributed"
	}
	sort.Strings(locs)
	return strings.Join(locs, "+")
}

func num(m map[string]interface{}, k string) float64 {
	if v, ok := m[k].(float64); ok {
		return v
	}
	return 0
}

func addMap(dst map[string]int, src interface{}) {
	if m, ok := src.(map[string]interface{}); ok {
		for k, v := range m {
			if f, ok := v.(float64); ok {
				dst[k] += int(f)
			}
		}
	}
}

func writeEvidence(prop, tier string, seed uint64, cfg *propCfg, s *scratch, agg *workerResult, nViol, nKnown int, wall, buildS float64, workers int) error {
	faults, probes, api, producers, extra := map[string]int{}, map[string]int{}, map[string]int{}, map[string]int{}, map[string]int{}
	mapSites := map[string]int{}
	var runs, nontrivial, distinct, steps, values, scheds, states int
	var yields, switches, midcall, yieldSites float64
	var samples []interface{}
	var simWall float64
	for _, st := range agg.stats {
		sm, _ := st["stats"].(map[string]interface{})
		if sm == nil {
			continue
		}
		runs += int(num(sm, "runs"))
		nontrivial += int(num(sm, "nontrivial_runs"))
		steps += int(num(sm, "sim_steps"))
		values += int(num(sm, "values_checked_wellformed"))
		yields += num(sm, "yields")
		switches += num(sm, "context_switches")
		midcall += num(sm, "mid_call_switches")
		distinct += int(num(st, "distinct_nontrivial"))
		scheds += int(num(st, "distinct_schedules"))
		states += int(num(st, "distinct_states"))
		simWall += num(st, "wall_s")
		addMap(faults, sm["fault_fired"])
		addMap(probes, sm["probes"])
		addMap(api, sm["api_surface"])
		addMap(producers, sm["wellformed_by_producer"])
		addMap(extra, sm["extra"])
		if cv, ok := st["coverage"].(map[string]interface{}); ok {
			addMap(mapSites, cv["maporder_sites_hit"])
			if ys := num(cv, "yield_sites_hit"); ys > yieldSites {
				yieldSites = ys
			}
		}
		if sl, ok := sm["samples"].([]interface{}); ok && len(samples) < 3 {
			for _, x := range sl {
				if len(samples) < 3 {
					samples = append(samples, x)
				}
			}
		}
	}
	if len(samples) == 0 {
		samples = append(samples, "no non-trivial run was sampled")
	}
	siteSet := map[string]bool{}
	triples := 0
	for k := range mapSites {
		triples++
		siteSet[strings.SplitN(k, "/", 2)[0]] = true
	}
	var zeroProbes []string
	for k, v := range probes {
		if v == 0 {
			zeroProbes = append(zeroProbes, k)
		}
	}
	cov := map[string]interface{}{
		"evaluations":                      runs,
		"distinct_nontrivial":              distinct,
		"rule":                             cfg.rule + " Counted per worker process and summed (workers explore disjoint run indices of one seed).",
		"samples":                          samples,
		"nontrivial_runs":                  nontrivial,
		"runs_per_hour":                    int(float64(runs) / (wall / 3600)),
		"seeds":                            fmt.Sprintf("VERIF_SEED=%d; run i of worker w uses sub-seed splitmix64(seed, property, w*2^40+i); %d workers", seed, workers),
		"sim_steps":                        steps,
		"simulated_time":                   "logical steps only: go-cty reads no clock and has no timers, so there is no simulated time to cover; sim_steps counts logged events (API calls, snapshots, switches)",
		"fault_fired":                      faults,
		"probes":                           probes,
		"api_surface":                      api,
		"maporder_site_policy_triples_hit": triples,
		"maporder_sites_hit":               len(siteSet),
		"maporder_sites_total":             s.nMap,
		"yield_sites_hit":                  int(yieldSites),
		"yield_sites_total":                s.nYield,
		"yields":                           int(yields),
		"context_switches":                 int(switches),
		"mid_call_switches":                int(midcall),
		"interleavings_distinct":           scheds,
		"states_distinct":                  states,
		"values_checked_wellformed":        values,
		"wellformed_by_producer":           producers,
		"components":                       map[string]interface{}{"real": realComponents, "stub": cfg.stubs},
		"build_s":                          buildS,
		"worker_cpu_s":                     simWall,
		"known_findings":                   nKnown,
		"notes":                            s.note,
		"extra":                            extra,
		"exhaustive":                       false,
	}
	ev := map[string]interface{}{
		"property_id": prop,
		"tier":        tier,
		"seed":        int64(seed % (1 << 62)),
		"level":       cfg.level,
		"coverage":    cov,
		"assumptions": cfg.assumptions,
		"wall_s":      wall,
		"violations":  nViol,
	}
	b, err := json.MarshalIndent(ev, "", " ")
	if err != nil {
		return err
	}
	return os.WriteFile(filepath.Join(evidenceDir(), prop+".json"), b, 0o644)
}

func cmdReplay(args []string) {
	if len(args) != 1 {
		die(2, "usage: verif replay <file>")
	}
	rp, err := tape.ReadReplay(args[0])
	if err != nil {
		die(2, "%v", err)
	}
	prop := rp.Extra["check_property"]
	if prop == "" {
		prop = rp.Property
	}
	cfg, ok := props[prop]
	if !ok {
		die(2, "no check registered for %s", prop)
	}
	s, err := prepare(cfg.race)
	defer s.cleanup()
	if err != nil {
		s.cleanup()
		die(2, "%v", err)
	}
	if wf := rp.Extra["warm_from"]; wf != "" {
		from, _ := strconv.ParseUint(wf, 10, 64)
		out := filepath.Join(s.dir, "replay-warm.jsonl")
		cmd := exec.Command(s.worker, "run", "-prop", prop, "-seed", fmt.Sprint(rp.Seed), "-from", fmt.Sprint(from), "-n", fmt.Sprint(rp.Index-from+1),
			"-tier", rp.Tier, "-out", out)
		cmd.Env = workerEnv(cfg)
		cmd.Stdout = os.Stdout
		cmd.Stderr = os.Stderr
		code := exitCode(cmd.Run())
		open, _ := readResults(out, &workerResult{})
		if fmt.Sprint(code) == rp.Extra["process_level"] && open == int64(rp.Index) {
			fmt.Printf("VIOLATION property=%s replay=%s\n", rp.Property, args[0])
			s.cleanup()
			os.Exit(1)
		}
		fmt.Printf("replay: the process-level failure (exit %s at run %d after runs %d..) did not reproduce (exit %d, last open run %d)\n", rp.Extra["process_level"], rp.Index, from, code, open)
		return
	}
	mode := "replay"
	if rp.Extra["needs_fresh_process"] != "" {
		mode = "try" // same class in a fresh process; the event log of a process that carries state is not comparable
	}
	cmd := exec.Command(s.worker, mode, "-file", args[0])
	cmd.Env = workerEnv(cfg)
	cmd.Stdout = os.Stdout
	cmd.Stderr = os.Stderr
	err = cmd.Run()
	code := exitCode(err)
	if pl := rp.Extra["process_level"]; pl != "" {
		if fmt.Sprint(code) == pl {
			fmt.Printf("VIOLATION property=%s replay=%s\n", rp.Property, args[0])
			s.cleanup()
			os.Exit(1)
		}
		fmt.Printf("replay: the process-level failure (exit %s) did not reproduce (exit %d)\n", pl, code)
		return
	}
	if code == 1 || (mode == "try" && code == 0) {
		fmt.Printf("VIOLATION property=%s replay=%s\n", rp.Property, args[0])
		s.cleanup()
		os.Exit(1)
	}
	if code != 3 {
		s.cleanup()
		os.Exit(2)
	}
}

func main() {
	if len(os.Args) < 2 {
		die(2, "usage: verif check|replay|selftest ...")
	}
	switch os.Args[1] {
	case "check":
		cmdCheck(os.Args[2:])
	case "replay":
		cmdReplay(os.Args[2:])
	case "selftest":
		cmdSelftest(os.Args[2:])
	default:
		die(2, "unknown subcommand %q", os.Args[1])
	}
}
