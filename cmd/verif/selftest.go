package main

import (
	"bufio"
	"encoding/json"
	"fmt"
	"os"
	"os/exec"
	"path/filepath"
	"strings"
	"sync"
)

// cmdSelftest implements `verif selftest determinism [--props a,b] [--runs N] [--procs N]`:
// the same run indices are executed in many fresh processes at GOMAXPROCS 1/4/16 and the
// per-run event-log hashes must be identical (DESIGN.md §7).
func cmdSelftest(args []string) {
	if len(args) < 1 || args[0] != "determinism" {
		die(2, "usage: verif selftest determinism [--props C03,C05] [--runs N] [--procs N]")
	}
	var list []string
	for p := range props {
		list = append(list, p)
	}
	runs, procs := 60, 30
	for i := 1; i < len(args); i++ {
		switch args[i] {
		case "--props":
			i++
			list = strings.Split(args[i], ",")
		case "--runs":
			i++
			fmt.Sscan(args[i], &runs)
		case "--procs":
			i++
			fmt.Sscan(args[i], &procs)
		}
	}
	bad := 0
	for _, prop := range list {
		cfg, ok := props[prop]
		if !ok {
			die(2, "unknown property %s", prop)
		}
		s, err := prepare(cfg.race)
		if err != nil {
			s.cleanup()
			die(2, "%v", err)
		}
		hashes := make([]map[uint64]string, procs)
		var wg sync.WaitGroup
		sem := make(chan struct{}, 8)
		var mu sync.Mutex
		var fails []string
		for p := 0; p < procs; p++ {
			wg.Add(1)
			go func(p int) {
				defer wg.Done()
				sem <- struct{}{}
				defer func() { <-sem }()
				out := filepath.Join(s.dir, fmt.Sprintf("det-%d.jsonl", p))
				cmd := exec.Command(s.worker, "run", "-prop", prop, "-seed", "424242", "-from", "0", "-n", fmt.Sprint(runs), "-out", out, "-maxviol", "1000000", "-shrink", "0")
				cmd.Env = append(workerEnv(cfg), fmt.Sprintf("GOMAXPROCS=%d", []int{1, 4, 16}[p%3]))
				if err := cmd.Run(); err != nil && exitCode(err) != 66 {
					mu.Lock()
					fails = append(fails, fmt.Sprintf("process %d: %v", p, err))
					mu.Unlock()
				}
				h := map[uint64]string{}
				f, err := os.Open(out)
				if err == nil {
					sc := bufio.NewScanner(f)
					sc.Buffer(make([]byte, 1<<20), 64<<20)
					for sc.Scan() {
						var l struct {
							T    string `json:"t"`
							I    uint64 `json:"i"`
							H    string `json:"h"`
							Viol *struct {
								EventHash string `json:"event_hash"`
								Class     string `json:"class"`
							} `json:"viol"`
						}
						if json.Unmarshal(sc.Bytes(), &l) != nil {
							continue
						}
						switch l.T {
						case "done":
							h[l.I] = l.H
						case "viol":
							h[l.I] = "viol:" + l.Viol.Class
						case "nondeterministic":
							h[l.I] = "NONDET"
						}
					}
					f.Close()
				}
				hashes[p] = h
			}(p)
		}
		wg.Wait()
		diverged := 0
		for i := uint64(0); i < uint64(runs); i++ {
			ref := hashes[0][i]
			for p := 1; p < procs; p++ {
				if hashes[p][i] != ref || ref == "NONDET" {
					diverged++
					if diverged <= 5 {
						fmt.Printf("selftest: %s run %d diverged: process 0 %q, process %d %q\n", prop, i, ref, p, hashes[p][i])
					}
					break
				}
			}
		}
		fmt.Printf("selftest determinism: property=%s runs=%d processes=%d (GOMAXPROCS 1/4/16) diverged=%d worker_failures=%d\n", prop, runs, procs, diverged, len(fails))
		for _, f := range fails {
			fmt.Println("  ", f)
		}
		if diverged > 0 || len(fails) > 0 {
			bad++
		}
		s.cleanup()
	}
	if bad > 0 {
		os.Exit(2)
	}
}
