#!/usr/bin/env python3
"""Regenerates /verif/MANIFEST.json from the table below (kept in one place so that the
manifest is always valid and the not_applicable list is always current)."""
import json, os, subprocess
HERE = os.path.dirname(os.path.dirname(os.path.abspath(__file__)))

NA = {
"C01":"pure relation between two calls of the same pure operation on weakened operands; no schedule, history, clock, fault or second party in the statement (DESIGN.md §6)",
"C02":"agreement of arithmetic/indexing with a reference on known operands; pure function of its arguments (DESIGN.md §6)",
"C04":"non-interference of marks between two pure calls; pure function of its arguments (DESIGN.md §6)",
"C07":"algebraic laws of type equality/conformance/serialisation; pure functions on types (DESIGN.md §6)",
"C08":"conformance, idempotence and totality of conversion as a function of (value, type); pure (DESIGN.md §6)",
"C09":"unification result as a function of a type list; pure (DESIGN.md §6)",
"C11":"totality and type-prediction soundness of stdlib functions over all arguments; pure (DESIGN.md §6)",
"C12":"soundness of stdlib results under weakening of arguments; pure relation between two calls (DESIGN.md §6)",
"C13":"collection/set/sequence functions equal a reference on known arguments; pure (DESIGN.md §6)",
"C14":"number/string/encoding/date functions equal a reference (no clock is read; timestamps are arguments); pure (DESIGN.md §6)",
"C15":"JSON round trip of undamaged bytes; pure (damaged bytes are C17) (DESIGN.md §6)",
"C16":"MessagePack round trip of undamaged bytes; pure (damaged bytes are C17) (DESIGN.md §6)",
"C18":"exactness of Go<->cty bridging over all Go values and target types; pure (DESIGN.md §6)",
}

# property -> (technique, level text, level note, design ref)
CLAIMED = {}
def claim(pid, technique, text, note, ref):
    CLAIMED[pid] = (technique, text, note, ref)

PENDING = {}  # property -> reason while its check is still being built

exec(open(os.path.join(HERE, "tools", "claims.py")).read())

hook_commits = subprocess.run(["git","-C","/repo","log","--format=%h","--grep=^verif hooks"],capture_output=True,text=True).stdout.split()

checks = []
for pid in sorted(CLAIMED):
    technique, text, note, ref = CLAIMED[pid]
    checks.append({
        "property_id": pid,
        "quick_cmd": f"./bin/verif check {pid} --tier quick",
        "thorough_cmd": f"./bin/verif check {pid} --tier thorough",
        "evidence_file": f"/verif/evidence/{pid}.json",
        "replay_cmd_template": "./bin/verif replay {path}",
        "engine": "ctysim",
        "level_claimed": {"category": "exploration", "text": text, "design_ref": ref},
        "level_note": note,
        "technique": technique,
    })

m = {
 "version": 1,
 "setup_cmd": "./setup.sh",
 "hooks": {
   "guard": "verif",
   "enable": "go build -tags verif compiles the add-only files cty/verif_fingerprint.go, cty/verif_wellformed.go and cty/set/verif_set.go; the map-order, yield and make() seams are NOT in /repo: bin/instrument inserts them into a scratch copy of the working tree on every check",
   "baseline_off_cmd": "cd /repo && go test -vet=off -count=1 ./...",
   "source_commits": hook_commits,
   "add_only": True,
 },
 "engines": [{"name":"ctysim","path":"/verif","serves_properties":sorted(CLAIMED),
   "kind_free_text":"deterministic simulator for a library: source-rewritten map-iteration seam, seeded baton scheduler whose hand-offs are invisible to the race detector, aliasing / callback / storage fault injection, choice-tape replay and shrinking, fresh-process confirmation of every violation"}],
 "checks": checks,
 "notes": "Every check copies /repo's working tree to a scratch directory, instruments and builds it there, and removes it afterwards. Exit 0 held / 1 VIOLATION / 2 machinery failure. Genuine defects repaired in /repo are listed as fixed: lines in /verif/known_findings.txt.",
 "not_applicable": [{"property_id":k,"reason":v} for k,v in sorted(NA.items())] + [{"property_id":k,"reason":v} for k,v in sorted(PENDING.items()) if k not in CLAIMED],
}
json.dump(m, open(os.path.join(HERE,"MANIFEST.json"),"w"), indent=1)
print("MANIFEST.json: %d checks, %d not applicable" % (len(checks), len(m["not_applicable"])))
