import sys,re,collections
# usage: uncov.py cov.txt file-suffix...
cov=sys.argv[1]; files=sys.argv[2:]
blocks=collections.defaultdict(list)
for l in open(cov):
    if l.startswith('mode:'): continue
    m=re.match(r'(.*):(\d+)\.(\d+),(\d+)\.(\d+) (\d+) (\d+)',l)
    f=m.group(1)
    if any(f.endswith(x) for x in files):
        if int(m.group(7))==0: blocks[f].append((int(m.group(2)),int(m.group(4))))
for f,bs in blocks.items():
    path='/tmp/vcov/src/'+f.split('go-cty/')[1]
    src=open(path).read().split('\n')
    print('#####',f)
    for a,b in sorted(set(bs)):
        print(f'--- {a}-{b}')
        for i in range(a-1,min(b,a+5)):
            print('   ',src[i][:150])
