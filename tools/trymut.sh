#!/bin/sh
# developer helper: trymut.sh <prop> <runs> <patchfile|-> : applies a patch (or stdin sed script via MUT_SED="file:expr") to a scratch
# worktree of /repo, builds the instrumented worker there and runs the property; always cleans up.
set -e
P=$1; N=$2; PATCH=$3
WT=/tmp/wt-mut.$$; S=/tmp/vscratch.mut.$$
git -C /repo worktree add --detach $WT HEAD >/dev/null 2>&1
trap 'git -C /repo worktree remove --force $WT >/dev/null 2>&1; rm -rf $S' EXIT
if [ -n "$MUT_SED" ]; then
  f=${MUT_SED%%::*}; e=${MUT_SED#*::}
  sed -i "$e" $WT/$f
  (cd $WT && git diff --stat | tail -1)
else
  git -C $WT apply $PATCH
fi
export GOFLAGS=-mod=mod GOPROXY=off GOSUMDB=off GOTOOLCHAIN=local
(cd $WT && go build ./... ) || { echo "MUTANT DOES NOT BUILD"; exit 3; }
R=$WT S=$S /verif/dev.sh >/dev/null
S=$S TOP=${TOP:-4} /verif/devrun.sh $P $N ${SEED:-1} 2>&1 | cut -c1-${CUT:-600}
