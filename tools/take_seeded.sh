#!/bin/sh
# take_seeded.sh <agent-worktree> <property> <id1> <id2> : confirms both deliveries of an agent (SEEDED1, SEEDED2), stores them, and runs
# the property's quick check against each.
cd "$(dirname "$0")/.." || exit 2
WT=$1; P=$2; shift; shift
i=1
for ID in "$@"; do
  SUB=SEEDED$i DEMO_RUN="$(python3 -c "import json;print(json.load(open('$WT/SEEDED$i/meta.json')).get('demo_run','go run .'))")" tools/confirm_seeded.sh $WT $ID 2>&1 | grep -E "RESULT|KEPT|FAIL|apply|build"
  [ -d seeded/$ID ] && tools/run_seeded.sh $ID $P 2>&1 | tail -1 | cut -c1-400
  i=$((i+1))
done
