# executed by tools/mkmanifest.py
TRUSTED = ("Trusted base: the instrumenter's rewrite preserves behaviour (the instrumented copy passes go-cty's own suite under ascending, descending and rotated map order); "
           "the checker's model/oracle code; the Go toolchain. Sampling, not proof: a clean batch is evidence only.")

for p in ["C06","C17","C19"]:
    PENDING[p] = "check under construction in this round (will be claimed; see DESIGN.md §5)"

claim("C05",
  "deterministic simulation: seeded refinement-builder call histories with snapshot/reuse faults against an interval model; exhaustive cut points per generated string",
  "Seeded search over histories of refinement-builder calls (1..12 calls, NewValue snapshots interleaved, builder reused after a snapshot or refining restarted from it, contradictions injected on purpose) under every map-order policy, each call judged accept/reject and each snapshot's Range()/Includes/Equals judged against an independent interval / nullness / prefix / length model; plus every rune-boundary cut of generated strings over the alphabet the property names, with 5 continuations per cut, checked directly against the statement (byte prefix of the normalized extension). Exploration is the right level: the space of histories and continuations is unbounded, and the failures live in tie cases (inclusive vs exclusive, equal bounds, mixed precisions) that seeded generation hits within seconds.",
  TRUSTED + " Numbers are compared by shortest decimal rendering as go-cty documents; infinite candidates are outside the oracle.",
  "DESIGN.md §5 C05")


claim("C20",
  "deterministic simulation: seeded multi-task operation histories over a shared pool under a seeded baton scheduler invisible to the race detector, with aliasing faults and controlled map order",
  "Seeded search over worlds of 2..16 caller tasks running generated operation histories (~75 operations over the whole public surface, including accessor-then-mutate and constructor-then-mutate aliasing faults and ValueSet/PathSet/builder copy-and-diverge life cycles) over a shared pool. Each world is executed sequentially with the internal fingerprint of every pre-existing object re-checked after every operation, repeated for purity, repeated under another map-iteration order, and run twice concurrently under a seeded scheduler whose baton hand-offs use raw pipe syscalls in norace code, so that serialized tasks still look unsynchronized to the Go race detector: one seed is one exactly repeatable interleaving and conflicting accesses are reportable. Exploration is the right level: the quantifier is histories x schedules, which no table test reaches, and the violations found here (set.Copy sharing bucket arrays, NewValue aliasing the builder, Equals depending on map order) all needed either a multi-step history or a second task.",
  TRUSTED + " Races are found by the Go race detector (history_size=7, sync.Pool and math/big divisor-table lock neutralised in the simulation build only); interleavings are sampled (random, PCT, round-robin, call-granular), not enumerated.",
  "DESIGN.md §5 C20")
PENDING.pop("C20", None)

claim("C03",
  "deterministic simulation: seeded histories of ValueSet / set-value operations (copy-and-diverge, permuted rebuilds, algebra) under controlled map order against a model set keyed by the documented equality; equivalence laws as cross-invariants",
  "Seeded search over histories of 8..57 set operations (Add, Remove, Has, Copy and diverge, the four algebra operations, SetVal of a drawn multiset in two orders, wrap/unwrap between ValueSet and set value, HasElement, Length, stdlib set functions, re-adding in a shuffled order) over a collision-biased population (the same number at other precisions, strings in other spellings, nulls, refined unknowns, 15 element types) under every map-order policy. After every step the touched set is compared with a model set keyed by the checker's own canonical key; two sets with equal model contents must iterate in the same key order; the equivalence laws (RawEquals reflexive/symmetric/transitive, Equals symmetric, nulls equal, Equals agreeing with RawEquals and with the documented equality on wholly-known values, trichotomy on numbers, equal implies same hash) are checked on sampled pairs and triples of the population and of a mixed-type population. Exploration is the right level: the second half of the statement quantifies over histories of a mutable helper object and the failures need collisions between representations plus a particular insertion order.",
  TRUSTED + " The canonical key is computed with math/big and x/text only, never through go-cty.",
  "DESIGN.md §5 C03")

claim("C10",
  "deterministic simulation: the simulator plays the function author - seeded specifications with fault-injecting Type/Impl callbacks (error, panic, non-conforming, unknown, marked, null) and spies; the recorded callback history and the outcome are checked against a protocol model",
  "Seeded search over function specifications x argument lists with the checker acting as the second party of the protocol: its Type and Impl callbacks record what they are given and fail in every way an author can (return an error, panic, return a value of the wrong type, an unknown, a marked value, a null). From the specification and the argument descriptions alone a protocol model derives the set of acceptable outcomes: which argument indices offend, whether the call must short-circuit and to which type, which marks the result must and may carry, exactly which (deeply unmarked) arguments each callback must see, that the implementation runs at most once and only after the type check accepted the same arguments, that callback failures come back as the same error or a PanicError, that a non-conforming result is never returned and that the declared refinement is on every typed unknown result. Exploration is the right level: the space is specifications x argument shapes and the historical defects were interactions between two argument kinds in the two passes.",
  TRUSTED + " Conformance of an argument to a constraint is decided by the checker's own structural rule on the descriptions, not by go-cty.",
  "DESIGN.md §5 C10")
