# executed by tools/mkmanifest.py
TRUSTED = ("Trusted base: the instrumenter's rewrite preserves behaviour (the instrumented copy passes go-cty's own suite under ascending, descending and rotated map order); "
           "the checker's model/oracle code; the Go toolchain. Sampling, not proof: a clean batch is evidence only.")

claim("C05",
  "deterministic simulation: seeded refinement-builder call histories with snapshot/reuse faults against an interval model; exhaustive cut points per generated string",
  "Seeded search over histories of refinement-builder calls (1..12 calls, NewValue snapshots interleaved, builder reused after a snapshot or refining restarted from it, contradictions injected on purpose) under every map-order policy, each call judged accept/reject and each snapshot's Range()/Includes/Equals judged against an independent interval / nullness / prefix / length model; plus every rune-boundary cut of generated strings over the alphabet the property names, with 5 continuations per cut, checked directly against the statement (byte prefix of the normalized extension). Exploration is the right level: the space of histories and continuations is unbounded, and the failures live in tie cases (inclusive vs exclusive, equal bounds, mixed precisions) that seeded generation hits within seconds.",
  TRUSTED + " Numbers are compared by shortest decimal rendering as go-cty documents; infinite candidates are outside the oracle.",
  "DESIGN.md §5 C05")

for p in ["C03","C06","C10","C17","C19","C20"]:
    PENDING[p] = "check under construction in this round (will be claimed; see DESIGN.md §5)"
