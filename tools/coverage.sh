#!/bin/sh
# developer aid (not a registered check): which library statements does each simulation reach?
# coverage.sh [runs] [props...] -> /tmp/vcov/<prop>.txt (go cover profile) and <prop>.func
# The worker is compiled as a package of an instrumented scratch copy of go-cty (go build -cover only
# instruments packages of the main module), runs are sequential, nothing is kept in /verif.
set -e
export GOFLAGS=-mod=mod GOPROXY=off GOSUMDB=off GOTOOLCHAIN=local
N=${1:-4000}; [ $# -gt 0 ] && shift
PROPS=${*:-C03 C05 C06 C10 C17 C19 C20}
S=/tmp/vcov.build; OUT=/tmp/vcov
rm -rf $S && mkdir -p $S/rp $OUT && rsync -a --exclude .git ${R:-/repo}/ $S/repo/
mkdir -p $S/repo/cty/verifseam && cp /verif/seam/seam.go $S/repo/cty/verifseam/
sed -i 's/^go 1.18/go 1.20/' $S/repo/go.mod && /verif/bin/instrument $S/repo >/dev/null
cp -r /verif/sim $S/repo/zzsim; cp -r /verif/internal/tape $S/repo/zztape
sed -i 's#"verif/internal/tape"#"github.com/zclconf/go-cty/zztape"#' $S/repo/zzsim/*.go
cd $S/repo && go build -tags verif -cover -coverpkg=./... -o $S/worker ./zzsim
for p in $PROPS; do
  rm -rf $S/cov && mkdir -p $S/cov
  GOCOVERDIR=$S/cov timeout 600 $S/worker run -prop $p -seed 1 -n $N -out $S/out.jsonl -replays $S/rp -budget 120s >/dev/null 2>&1 || true
  go tool covdata textfmt -i=$S/cov -o $OUT/$p.txt
  go tool cover -func=$OUT/$p.txt | sed 's#github.com/zclconf/go-cty/##' | grep -v "zzsim\|zztape\|verifseam" > $OUT/$p.func
  echo "== $p: $(tail -1 $OUT/$p.func)"
done
mkdir -p $OUT/src && rsync -a $S/repo/cty $OUT/src/
rm -rf $S
