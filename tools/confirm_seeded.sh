#!/bin/sh
# [SUB=SEEDED1] confirm_seeded.sh <agent-worktree> <id> : re-verifies a seeded change independently in a fresh scratch worktree of /repo HEAD
# (patch applies, builds, suite passes with it, demo fails with it and passes without) and stores it under /verif/seeded/<id>/.
set -u
SRC=$1; ID=$2
export GOFLAGS=-mod=mod GOPROXY=off GOSUMDB=off GOTOOLCHAIN=local
WT=/tmp/wt-confirm.$$
git -C /repo worktree add --detach $WT HEAD >/dev/null 2>&1 || exit 2
trap 'git -C /repo worktree remove --force $WT >/dev/null 2>&1' EXIT
cd $WT
git apply $SRC/${SUB:-SEEDED}/patch.diff || { echo "RESULT $ID patch-does-not-apply"; exit 1; }
go build ./... || { echo "RESULT $ID does-not-build"; exit 1; }
if go test -vet=off -count=1 ./... >/tmp/suite.$$ 2>&1; then SUITE=pass; else SUITE=FAIL; fi
# demo: a nested module whose replace points at the agent's worktree -> point it at ours
rm -rf $WT/SEEDEDX && cp -r $SRC/${SUB:-SEEDED} $WT/SEEDEDX
sed -i "s#=> $SRC#=> $WT#" $WT/SEEDEDX/demo/go.mod
(cd $WT/SEEDEDX/demo && timeout 300 ${DEMO_RUN:-go run .} >/tmp/demo_with.$$ 2>&1); WITH=$?
git apply -R $SRC/${SUB:-SEEDED}/patch.diff
(cd $WT/SEEDEDX/demo && timeout 300 ${DEMO_RUN:-go run .} >/tmp/demo_without.$$ 2>&1); WITHOUT=$?
echo "RESULT $ID suite_with_change=$SUITE demo_with_change_exit=$WITH demo_without_exit=$WITHOUT"
if [ "$SUITE" = pass ] && [ $WITH -ne 0 ] && [ $WITHOUT -eq 0 ]; then
  mkdir -p /verif/seeded/$ID && cp $SRC/${SUB:-SEEDED}/patch.diff $SRC/${SUB:-SEEDED}/meta.json /verif/seeded/$ID/ && rm -rf /verif/seeded/$ID/demo && cp -r $SRC/${SUB:-SEEDED}/demo /verif/seeded/$ID/demo
  sed -i "s#=> $SRC#=> /repo#" /verif/seeded/$ID/demo/go.mod
  echo "KEPT $ID"
else
  tail -5 /tmp/suite.$$ /tmp/demo_with.$$ /tmp/demo_without.$$
fi
rm -f /tmp/suite.$$ /tmp/demo_with.$$ /tmp/demo_without.$$
