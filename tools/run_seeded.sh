#!/bin/sh
# run_seeded.sh <id> <prop> [extra verif args] : applies /verif/seeded/<id>/patch.diff to /repo, runs the quick check of <prop>, and undoes it.
ID=$1; P=$2; shift; shift
cd /verif
git -C /repo diff --quiet || { echo "/repo is dirty"; exit 2; }
git -C /repo apply /verif/seeded/$ID/patch.diff || exit 2
trap 'git -C /repo checkout -- . ' EXIT
./bin/verif check $P --tier quick "$@" > /tmp/seeded_$ID.$P.log 2>&1; RC=$?
V=$(grep -c "^VIOLATION" /tmp/seeded_$ID.$P.log)
echo "SEEDED $ID on $P: exit=$RC violations=$V $(grep -m1 -A1 '^VIOLATION' /tmp/seeded_$ID.$P.log | tail -1 | cut -c1-160)"
