#!/bin/sh
# run_seeded.sh <id> <prop> [extra verif args] : runs the quick check of <prop> against go-cty with $V/seeded/<id>/patch.diff applied.
# The patch is applied to a scratch worktree of /repo's HEAD (removed afterwards) that the driver is pointed at with VERIF_REPO,
# which is the same as `git -C /repo apply` + run + `git -C /repo checkout -- .` but never disturbs /repo or sweeps reading it.
ID=$1; P=$2; shift; shift
cd "$(dirname "$0")/.." || exit 2
V=$(pwd)
WT=/tmp/wt-seeded.$ID.$P.$$
git -C /repo worktree add --detach $WT HEAD >/dev/null 2>&1 || { echo "cannot create worktree"; exit 2; }
RP=/tmp/seeded_replays.$$; EV=/tmp/seeded_evidence.$$
trap 'git -C /repo worktree remove --force $WT >/dev/null 2>&1; rm -rf $RP $EV' EXIT
git -C $WT apply $V/seeded/$ID/patch.diff || { echo "SEEDED $ID: patch does not apply"; exit 2; }
LOG=/tmp/seeded_$ID.$P.log
VERIF_REPO=$WT VERIF_EVIDENCE_DIR=$EV VERIF_REPLAYS_DIR=$RP ./bin/verif check $P --tier quick "$@" > $LOG 2>&1; RC=$?
V=$(grep -a -c "^VIOLATION" $LOG)
echo "SEEDED $ID on $P: exit=$RC violations=$V $(grep -a -A1 '^VIOLATION' $LOG | grep -v '^VIOLATION' | grep -v '^--' | cut -c1-150 | sort | uniq -c | sort -rn | head -4 | tr '\n' ';')"
