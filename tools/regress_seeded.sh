#!/bin/sh
# regress_seeded.sh [ids...] : runs every kept seeded change (or the given ones) against the quick check of the property it breaks
# and prints one line each; a change that is no longer caught is marked MISSED.
cd "$(dirname "$0")/.." || exit 2
V=$(pwd)
IDS=${*:-$(ls seeded)}
for id in $IDS; do
  p=$(python3 -c "import json;d=json.load(open('$V/seeded/$id/meta.json'));print(d.get('check_with',d['property']))")
  out=$(tools/run_seeded.sh $id $p 2>&1 | tail -1)
  case "$out" in *"violations=0"*|*"does not apply"*|*"exit=2"*) echo "MISSED  $out";; *) echo "caught  $out";; esac
done
