// Package verifseam is the simulation seam copied into the instrumented scratch
// copy of go-cty as github.com/zclconf/go-cty/cty/verifseam (DESIGN.md §3).
//
// It owns three things the library otherwise leaves to the Go runtime:
//
//   - the order in which maps are iterated (Range / ReflectKeys),
//   - which caller goroutine ("task") runs (Yield + the baton scheduler),
//   - how much memory a decoder may ask for on behalf of one record (MakeLen).
//
// Everything that touches scheduler state is //go:norace and the baton is
// handed over with raw read(2)/write(2) on pipes, so the hand-off creates no
// happens-before edge that the race detector could see: tasks are serialised
// in real time, but look unsynchronised to the detector.
package verifseam

import (
	"fmt"
	"reflect"
	"sort"
	"syscall"
	"unsafe"
)

// ---------------------------------------------------------------------------
// map-order policies

const (
	OrderAsc = iota
	OrderDesc
	OrderRotate
	OrderShuffle
	NumOrders
)

// MaxSites bounds the site tables; the instrumenter numbers sites from 1.
const MaxSites = 4096

type Task struct {
	ID     int
	Order  int
	Arg    uint64 // rotation amount
	rng    uint64 // shuffle stream
	rfd    int
	wfd    int
	done   bool
	prio   int
	parked bool
}

var mainTask = &Task{ID: -1}
var cur = mainTask

// MapSiteHits[site][order] counts iterations with at least two keys.
var MapSiteHits [MaxSites][NumOrders]uint32

// YieldSiteHits[site] counts yields executed while a scheduler was active.
var YieldSiteHits [MaxSites]uint32

// YieldCalls counts every Yield call, scheduler or not (logical time).
var YieldCalls uint64

// SetMainOrder sets the map-order policy used when no scheduler task is running.
//
//go:norace
func SetMainOrder(order int, arg uint64) {
	mainTask.Order = order
	mainTask.Arg = arg
	mainTask.rng = arg*0x9E3779B97F4A7C15 + 0x1234567
	if mainTask.rng == 0 {
		mainTask.rng = 1
	}
}

//go:norace
func curOrder() (order int, arg uint64) {
	return cur.Order, cur.Arg
}

//go:norace
func curRand(n int) int {
	x := cur.rng
	if x == 0 {
		x = 0x2545F4914F6CDD1D
	}
	x ^= x << 13
	x ^= x >> 7
	x ^= x << 17
	cur.rng = x
	return int(x % uint64(n))
}

//go:norace
func hitMap(site, order, n int) {
	if n >= 2 && site > 0 && site < MaxSites {
		MapSiteHits[site][order]++
	}
}

type Iter[K comparable, V any] struct {
	m    map[K]V
	keys []K
	i    int
	k    K
	v    V
}

// Range is what every `for k, v := range m` in the library is rewritten to.
func Range[K comparable, V any](m map[K]V, site int) *Iter[K, V] {
	keys := make([]K, 0, len(m))
	for k := range m {
		keys = append(keys, k)
	}
	sort.Slice(keys, func(i, j int) bool { return less(keys[i], keys[j]) })
	order, arg := curOrder()
	hitMap(site, order, len(keys))
	n := len(keys)
	switch order {
	case OrderDesc:
		for i, j := 0, n-1; i < j; i, j = i+1, j-1 {
			keys[i], keys[j] = keys[j], keys[i]
		}
	case OrderRotate:
		if n > 1 {
			r := int(arg%uint64(n-1)) + 1
			rot := make([]K, 0, n)
			rot = append(rot, keys[r:]...)
			rot = append(rot, keys[:r]...)
			keys = rot
		}
	case OrderShuffle:
		for i := n - 1; i > 0; i-- {
			j := curRand(i + 1)
			keys[i], keys[j] = keys[j], keys[i]
		}
	}
	return &Iter[K, V]{m: m, keys: keys}
}

// Next skips keys deleted since the iteration began, as native iteration does.
func (it *Iter[K, V]) Next() bool {
	for it.i < len(it.keys) {
		k := it.keys[it.i]
		it.i++
		if v, ok := it.m[k]; ok {
			it.k, it.v = k, v
			return true
		}
	}
	return false
}
func (it *Iter[K, V]) Key() K { return it.k }
func (it *Iter[K, V]) Val() V { return it.v }

func less(a, b any) bool {
	switch x := a.(type) {
	case string:
		if y, ok := b.(string); ok {
			return x < y
		}
	case int:
		if y, ok := b.(int); ok {
			return x < y
		}
	case int64:
		if y, ok := b.(int64); ok {
			return x < y
		}
	case uint64:
		if y, ok := b.(uint64); ok {
			return x < y
		}
	case float64:
		if y, ok := b.(float64); ok {
			return x < y
		}
	case bool:
		if y, ok := b.(bool); ok {
			return !x && y
		}
	}
	ta, tb := fmt.Sprintf("%T", a), fmt.Sprintf("%T", b)
	if ta != tb {
		return ta < tb
	}
	return fmt.Sprintf("%v", a) < fmt.Sprintf("%v", b)
}

// ReflectKeys puts the result of reflect.Value.MapKeys under the same policy.
func ReflectKeys(keys []reflect.Value, site int) []reflect.Value {
	sort.Slice(keys, func(i, j int) bool { return less(keys[i].Interface(), keys[j].Interface()) })
	order, arg := curOrder()
	hitMap(site, order, len(keys))
	n := len(keys)
	switch order {
	case OrderDesc:
		for i, j := 0, n-1; i < j; i, j = i+1, j-1 {
			keys[i], keys[j] = keys[j], keys[i]
		}
	case OrderRotate:
		if n > 1 {
			r := int(arg%uint64(n-1)) + 1
			rot := make([]reflect.Value, 0, n)
			rot = append(rot, keys[r:]...)
			rot = append(rot, keys[:r]...)
			keys = rot
		}
	case OrderShuffle:
		for i := n - 1; i > 0; i-- {
			j := curRand(i + 1)
			keys[i], keys[j] = keys[j], keys[i]
		}
	}
	return keys
}

// ---------------------------------------------------------------------------
// allocation accounting for decoders (C17)

type OversizeAlloc struct {
	Site      int
	Requested int64
	Total     int64
	Limit     int64
}

func (o OversizeAlloc) Error() string {
	return fmt.Sprintf("verifseam: decoder requested %d bytes at make site %d (total %d, limit %d)", o.Requested, o.Site, o.Total, o.Limit)
}

var rec struct {
	active   bool
	limit    int64
	total    int64
	max      int64
	maxSite  int
	requests int64
}

// BeginRecord starts accounting make() requests against one record.
func BeginRecord(limit int64) {
	rec.active, rec.limit, rec.total, rec.max, rec.maxSite, rec.requests = true, limit, 0, 0, 0, 0
}

// EndRecord stops accounting and reports what was requested.
func EndRecord() (total, max int64, maxSite int, requests int64) {
	rec.active = false
	return rec.total, rec.max, rec.maxSite, rec.requests
}

// MakeLen is what every non-constant make() size in the decoder packages goes through.
func MakeLen(n int, elemSize int, site int) int {
	if !rec.active || n <= 0 {
		return n
	}
	b := int64(n) * int64(elemSize)
	rec.requests++
	rec.total += b
	if b > rec.max {
		rec.max, rec.maxSite = b, site
	}
	if rec.total > rec.limit {
		rec.active = false
		panic(OversizeAlloc{Site: site, Requested: b, Total: rec.total, Limit: rec.limit})
	}
	return n
}

// ---------------------------------------------------------------------------
// baton scheduler

const (
	StratCallGranular = iota // switch only at Boundary()
	StratRandom              // switch with probability P/65536 at every yield
	StratPCT                 // random priorities, D-1 priority change points
	StratRoundRobin          // switch every K yields
	StratExplicit            // replay a recorded switch list
	NumStrats
)

type Switch struct {
	At   uint64 `json:"at"`   // global yield counter at which the switch happened
	To   int    `json:"to"`   // task that received the baton
	Site int    `json:"site"` // yield site (0 = operation boundary)
}

type Config struct {
	Tasks    int
	Strategy int
	P        uint32 // StratRandom / StratCallGranular: probability numerator over 65536
	K        uint64 // StratRoundRobin
	Changes  []uint64
	Explicit []Switch
	Seed     uint64
	Budget   uint64 // after this many yields no further switches happen
	Orders   []int  // map-order policy per task
	Args     []uint64
}

type Sched struct {
	cfg       Config
	tasks     []*Task
	cur       int
	rng       uint64
	yields    uint64
	switches  []Switch
	ei        int
	ci        int
	midCall   uint64 // switches at a site != 0
	exhausted bool
}

var sched *Sched

// NewSched prepares a scheduler; tasks must then be started with Go and released with Start.
//
//go:norace
func NewSched(cfg Config) *Sched {
	s := &Sched{cfg: cfg, rng: cfg.Seed | 1}
	for i := 0; i < cfg.Tasks; i++ {
		var p [2]int
		if err := syscall.Pipe(p[:]); err != nil {
			panic("verifseam: pipe: " + err.Error())
		}
		t := &Task{ID: i, rfd: p[0], wfd: p[1], prio: 0}
		if i < len(cfg.Orders) {
			t.Order = cfg.Orders[i]
		}
		if i < len(cfg.Args) {
			t.Arg = cfg.Args[i]
		}
		t.rng = (cfg.Seed+uint64(i)+1)*0x9E3779B97F4A7C15 | 1
		s.tasks = append(s.tasks, t)
	}
	if cfg.Strategy == StratPCT {
		// random distinct priorities: a permutation
		n := cfg.Tasks
		perm := make([]int, n)
		for i := range perm {
			perm[i] = i
		}
		for i := n - 1; i > 0; i-- {
			j := int(s.next() % uint64(i+1))
			perm[i], perm[j] = perm[j], perm[i]
		}
		for i, t := range s.tasks {
			t.prio = perm[i] + len(cfg.Changes) + 1
		}
	}
	return s
}

//go:norace
func (s *Sched) next() uint64 {
	x := s.rng
	x ^= x << 13
	x ^= x >> 7
	x ^= x << 17
	s.rng = x
	return x
}

//go:norace
func park(t *Task) {
	var b [1]byte
	for {
		n, _, e := syscall.Syscall(syscall.SYS_READ, uintptr(t.rfd), uintptr(unsafe.Pointer(&b[0])), 1)
		if e == syscall.EINTR || e == syscall.EAGAIN {
			continue
		}
		if e != 0 || n != 1 {
			panic("verifseam: park read failed")
		}
		return
	}
}

//go:norace
func wake(t *Task) {
	b := [1]byte{1}
	for {
		n, _, e := syscall.Syscall(syscall.SYS_WRITE, uintptr(t.wfd), uintptr(unsafe.Pointer(&b[0])), 1)
		if e == syscall.EINTR || e == syscall.EAGAIN {
			continue
		}
		if e != 0 || n != 1 {
			panic("verifseam: wake write failed")
		}
		return
	}
}

// TaskEnter must be the first thing a task goroutine does: it parks until it is given the baton.
//
//go:norace
func (s *Sched) TaskEnter(id int) {
	park(s.tasks[id])
}

// TaskExit must be the last thing a task goroutine does while the scheduler is active.
//
//go:norace
func (s *Sched) TaskExit(id int) {
	t := s.tasks[id]
	t.done = true
	nxt := s.pickRunnable(id, true)
	if nxt < 0 {
		// last task: deactivate
		sched = nil
		cur = mainTask
		return
	}
	s.record(nxt, 0)
	s.cur = nxt
	cur = s.tasks[nxt]
	wake(s.tasks[nxt])
}

// Start activates the scheduler and gives the baton to the first task. The caller
// (the main goroutine) must then wait for the tasks with ordinary synchronisation.
//
//go:norace
func (s *Sched) Start() {
	sched = s
	first := 0
	switch s.cfg.Strategy {
	case StratPCT:
		first = s.highest(-1)
	case StratExplicit:
		if len(s.cfg.Explicit) > 0 && s.cfg.Explicit[0].At == 0 {
			first = s.cfg.Explicit[0].To % len(s.tasks)
			s.ei = 1
		}
	default:
		first = int(s.next() % uint64(len(s.tasks)))
	}
	s.switches = append(s.switches, Switch{At: 0, To: first, Site: 0})
	s.cur = first
	cur = s.tasks[first]
	wake(s.tasks[first])
}

// Close releases the pipes. Call after all tasks have finished.
//
//go:norace
func (s *Sched) Close() {
	if sched == s {
		sched = nil
		cur = mainTask
	}
	for _, t := range s.tasks {
		syscall.Close(t.rfd)
		syscall.Close(t.wfd)
	}
}

//go:norace
func (s *Sched) Switches() []Switch { return s.switches }

//go:norace
func (s *Sched) Stats() (yields, switches, midCall uint64, exhausted bool) {
	return s.yields, uint64(len(s.switches)), s.midCall, s.exhausted
}

//go:norace
func (s *Sched) record(to, site int) {
	s.switches = append(s.switches, Switch{At: s.yields, To: to, Site: site})
	if site != 0 {
		s.midCall++
	}
}

//go:norace
func (s *Sched) highest(except int) int {
	best := -1
	for i, t := range s.tasks {
		if t.done || i == except {
			continue
		}
		if best < 0 || t.prio > s.tasks[best].prio {
			best = i
		}
	}
	return best
}

// pickRunnable chooses a task other than `from`; -1 if none.
//
//go:norace
func (s *Sched) pickRunnable(from int, exiting bool) int {
	n := len(s.tasks)
	alive := 0
	for i, t := range s.tasks {
		if !t.done && i != from {
			alive++
		}
	}
	if alive == 0 {
		return -1
	}
	switch s.cfg.Strategy {
	case StratPCT:
		return s.highest(from)
	case StratRoundRobin:
		for d := 1; d <= n; d++ {
			i := (from + d) % n
			if !s.tasks[i].done && i != from {
				return i
			}
		}
	case StratExplicit:
		if exiting && s.ei < len(s.cfg.Explicit) {
			to := s.cfg.Explicit[s.ei].To % n
			if s.cfg.Explicit[s.ei].At <= s.yields {
				s.ei++
				if !s.tasks[to].done && to != from {
					return to
				}
			}
		}
		for d := 1; d <= n; d++ {
			i := (from + d) % n
			if !s.tasks[i].done && i != from {
				return i
			}
		}
	}
	k := int(s.next() % uint64(alive))
	for i, t := range s.tasks {
		if !t.done && i != from {
			if k == 0 {
				return i
			}
			k--
		}
	}
	return -1
}

//go:norace
func (s *Sched) decide(site int) int {
	if s.yields > s.cfg.Budget {
		s.exhausted = true
		return -1
	}
	switch s.cfg.Strategy {
	case StratCallGranular:
		if site != 0 {
			return -1
		}
		if uint32(s.next()&0xFFFF) < s.cfg.P {
			return s.pickRunnable(s.cur, false)
		}
	case StratRandom:
		if uint32(s.next()&0xFFFF) < s.cfg.P {
			return s.pickRunnable(s.cur, false)
		}
	case StratRoundRobin:
		if s.cfg.K > 0 && s.yields%s.cfg.K == 0 {
			return s.pickRunnable(s.cur, false)
		}
	case StratPCT:
		for s.ci < len(s.cfg.Changes) && s.cfg.Changes[s.ci] <= s.yields {
			// lower the running task's priority below every initial priority
			s.tasks[s.cur].prio = len(s.cfg.Changes) - s.ci
			s.ci++
		}
		h := s.highest(-1)
		if h >= 0 && h != s.cur {
			return h
		}
	case StratExplicit:
		for s.ei < len(s.cfg.Explicit) && s.cfg.Explicit[s.ei].At < s.yields {
			s.ei++ // stale entry (its moment has passed)
		}
		if s.ei < len(s.cfg.Explicit) && s.cfg.Explicit[s.ei].At == s.yields {
			to := s.cfg.Explicit[s.ei].To % len(s.tasks)
			s.ei++
			if to != s.cur && !s.tasks[to].done {
				return to
			}
		}
	}
	return -1
}

// Yield is inserted by the instrumenter at every function entry and loop head.
//
//go:norace
func Yield(site int) {
	YieldCalls++
	s := sched
	if s == nil {
		return
	}
	s.yields++
	if site > 0 && site < MaxSites {
		YieldSiteHits[site]++
	}
	nxt := s.decide(site)
	if nxt < 0 || nxt == s.cur {
		return
	}
	me := s.tasks[s.cur]
	s.record(nxt, site)
	s.cur = nxt
	cur = s.tasks[nxt]
	wake(s.tasks[nxt])
	park(me)
}

// Boundary is called by the harness between two API calls of a task.
//
//go:norace
func Boundary() { Yield(0) }

// Active reports whether a scheduler currently owns the tasks.
//
//go:norace
func Active() bool { return sched != nil }
